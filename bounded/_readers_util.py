"""Helpers of bounded/readers.py (properties C06 and C07): wall-clock / CPU guards around every single
reader call, the N-Triples line generator with its oracle and root-cause classifier, the Turtle document
generator (abstract statement groups -> token stream -> layout) with the rdflib referee and its classifier.
Everything here is bounded testing machinery; nothing is proved."""
import itertools
import re
import signal
import sys
import traceback

try:
    from . import _pipeline_util as U
except ImportError:                                    # executed as a plain script
    import os
    sys.path.insert(0, os.path.dirname(os.path.abspath(__file__)))
    import _pipeline_util as U

XSD = "http://www.w3.org/2001/XMLSchema#"
RDF = "http://www.w3.org/1999/02/22-rdf-syntax-ns#"
XSD_STRING = XSD + "string"
XSD_INTEGER = XSD + "integer"
RDF_LANGSTRING = RDF + "langString"
RDF_TYPE = RDF + "type"

WALL_SECONDS = 2            # signal.alarm around every reader call (a timeout is the result "hang")
CPU_SECONDS = 0.02          # additional ITIMER_PROF (CPU time of the process) around N-Triples lines: a line normally
#                             takes ~20 microseconds and the non-termination shapes seen so far are busy loops.  An expiry
#                             counts as a hang only after the plain 2 s alarm has confirmed hangs of the same root-cause
#                             category (readers.py:_read_line), and every reported reproducer is run again under that alarm.


# ------------------------------------------------------------------------------------------------
# guards
# ------------------------------------------------------------------------------------------------
class ReaderTimeout(BaseException):
    pass


_ARMED = [False]


def _on_signal(signum, frame):
    if _ARMED[0]:
        _ARMED[0] = False
        raise ReaderTimeout()


def install_handlers():
    signal.signal(signal.SIGALRM, _on_signal)
    signal.signal(signal.SIGPROF, _on_signal)


def _disarm():
    _ARMED[0] = False
    signal.setitimer(signal.ITIMER_PROF, 0)
    signal.alarm(0)


def guarded(fn, cpu=None, wall=WALL_SECONDS):
    """-> ("ok", value) | ("hang",) | ("raise", "ExcType", "function where raised", "message").
    fn runs under signal.alarm(wall) and, when cpu is given, under a CPU-time timer as well."""
    try:
        try:
            _ARMED[0] = True
            signal.alarm(wall)
            if cpu:
                signal.setitimer(signal.ITIMER_PROF, cpu)
            return ("ok", fn())
        finally:
            _disarm()
    except ReaderTimeout:
        _disarm()
        return ("hang",)
    except Exception as exc:
        _disarm()
        tb = traceback.extract_tb(exc.__traceback__)
        where = "?"
        for fr in reversed(tb):
            if "shexer" in fr.filename:
                where = fr.name
                break
        return ("raise", type(exc).__name__, where, str(exc)[:160])


def _view(x):
    return (type(x).__name__, str(x), getattr(x, "elem_type", None))


def read_nt(text, cpu=CPU_SECONDS, wall=WALL_SECONDS):
    """One fresh NtTriplesYielder on `text`.  value = ([[ks, s, p, ko, o, dt], ...], error_triples)."""
    U.env()
    cls = sys.modules["shexer.io.graph.yielder.nt_triples_yielder"].NtTriplesYielder

    def go():
        y = cls(raw_graph=text)
        out = []
        for (s, p, o) in y.yield_triples():
            vs, vo = _view(s), _view(o)
            out.append([vs[0], vs[1], str(p), vo[0], vo[1], vo[2] if vo[0] == "Literal" else None])
        return out, y.error_triples
    return guarded(go, cpu=cpu, wall=wall)


def read_ttl(text, wall=WALL_SECONDS):
    """One fresh BigTtlTriplesYielder on `text`.  value = [[ks, s, p, ko, o, dt], ...] in yield order."""
    U.env()
    cls = sys.modules["shexer.io.graph.yielder.big_ttl_triples_yielder"].BigTtlTriplesYielder

    def go():
        y = cls(raw_graph=text)
        out = []
        for (s, p, o) in y.yield_triples():
            vs, vo = _view(s), _view(o)
            out.append([vs[0], vs[1], str(p), vo[0], vo[1], vo[2] if vo[0] == "Literal" else None])
        return out
    return guarded(go, cpu=None, wall=wall)


def import_readers():
    U.env()
    import shexer.io.graph.yielder.nt_triples_yielder       # noqa: F401
    import shexer.io.graph.yielder.big_ttl_triples_yielder  # noqa: F401
    import shexer.utils.factories.triple_yielders_factory   # noqa: F401


_UNESC = re.compile(r'\\(u[0-9A-Fa-f]{4}|U[0-9A-Fa-f]{8}|.)', re.S)
_ESC_MAP = {"n": "\n", "r": "\r", "t": "\t", "b": "\b", "f": "\f", '"': '"', "'": "'", "\\": "\\"}


def unescape(s):
    """ECHAR / UCHAR of N-Triples and Turtle string literals."""
    def rep(m):
        g = m.group(1)
        if g[0] in "uU" and len(g) > 1:
            return chr(int(g[1:], 16))
        return _ESC_MAP.get(g, g)
    return _UNESC.sub(rep, s)


# ================================================================================================
# C06: N-Triples lines
# ================================================================================================
# The adversarial alphabet of the quantifier: 14 SYMBOLS (a lexical form of "length L" is a
# concatenation of L symbols, written exactly like this between the quotes).
SYMBOLS = ['\\"', '\\\\', '@', '^^', '#', ' .', '<', '>', 'xsd:', 'geo:', '7', '_', 'é', '\\u00e9']
EXTRA_SYMBOLS = ['a', ' ', 'rdf:', 'dt:', '%', ';', ',', '\\n', "'", 'http://', 'Z', '\u2028', '\x85', '\x0c']
PREFIX_LIKE = ("xsd:", "rdf:", "dt:", "geo:")
# characters at which str.splitlines() breaks a string although N-Triples allows them unescaped inside a literal
# (the only line ends of N-Triples are LF / CR); rdflib, the referee, accepts every one of them raw
LINE_SEPARATORS = ["\u2028", "\u2029", "\x85", "\x0c", "\x0b", "\x1c", "\x1d", "\x1e"]

DT_FOO = "http://ex.org/dt/foo"
XSD_ANYURI = XSD + "anyURI"     # an XSD datatype whose lexical forms rdflib (the referee) leaves alone; xsd:integer "7_7" -> "77", xsd:token collapses blanks
SUFFIXES = [("plain", None), ("lang", "en"), ("lang", "en-GB"), ("dt", XSD_ANYURI), ("dt", DT_FOO)]
IRIS = ["http://ex.org/s", "http://ex.org/ns#frag", "http://user@ex.org/at", "http://ex.org/under_score",
        "http://ex.org:8080/a:b", "urn:x-dt:foo", "http://ex.org/geo:point"]
BNODES = ["b1", "b_2", "n3-x"]
DOTTED_BNODES = ["genid.1", "b-2", "a.b.c", "x.1.y-2"]     # '.', '-' and digits inside a label (never a final '.')
S_DEFAULT = ("I", "http://ex.org/s")
P_DEFAULT = "http://ex.org/p"

SEPS = [" ", "\t", "  "]                # between subject / predicate / object
PRE_DOT = [" ", "", "\t"]               # between the object and the final dot
COMMENTS = ["", " # c"]                 # trailing comment (after the dot) of the literal sweeps
ODD_COMMENTS = ["# 100%", "# a^^b", "# \"q\"", "# a@b", "# see <http://ex.org/x> _:b 2"]    # trailing comments with literal-like characters (node sweep only)
DEFAULT_LAYOUT = (" ", " ", " ", "")


def nt_node_text(n):
    if n[0] == "I":
        return "<" + n[1] + ">"
    if n[0] == "B":
        return "_:" + n[1]
    lex, kind, x = n[1], n[2], n[3]
    if kind == "plain":
        return '"' + lex + '"'
    if kind == "lang":
        return '"' + lex + '"@' + x
    return '"' + lex + '"^^<' + x + '>'


def nt_line(case):
    s, p, o, sep1, sep2, sep3, comment = case
    return nt_node_text(s) + sep1 + "<" + p + ">" + sep2 + nt_node_text(o) + sep3 + "." + comment


def nt_datatype(o):
    return XSD_STRING if o[2] == "plain" else RDF_LANGSTRING if o[2] == "lang" else o[3]


def nt_expected(case):
    """Oracle built from the abstract triple only.  Literal content = the lexical form exactly as written
    between the outer quotes (sheXer does not unescape)."""
    s, p, o = case[0], case[1], case[2]
    vs = ["IRI", s[1]] if s[0] == "I" else ["BNode", "_:" + s[1]]
    if o[0] == "I":
        vo = ["IRI", o[1], None]
    elif o[0] == "B":
        vo = ["BNode", "_:" + o[1], None]
    else:
        vo = ["Literal", o[1], nt_datatype(o)]
    return vs + [p] + vo


_RDFLIB_NT = []


class _Sink(object):
    def __init__(self):
        self.t = []

    def triple(self, s, p, o):
        self.t.append((s, p, o))


def rdflib_nt(text):
    """rdflib's N-Triples parser as the referee of validity: -> ("ok", [[ks, s, p, ko, o(unescaped), dt]]) |
    ("rejected", message).  Blank nodes are mapped back to their labels through bnode_context."""
    if not _RDFLIB_NT:
        import rdflib
        from rdflib.plugins.parsers.ntriples import W3CNTriplesParser
        _RDFLIB_NT.extend([rdflib, W3CNTriplesParser])
    rdflib, parser = _RDFLIB_NT
    sink, ctx = _Sink(), {}
    try:
        parser(sink=sink, bnode_context=ctx).parsestring(text)
    except Exception as exc:
        return ("rejected", "%s: %s" % (type(exc).__name__, str(exc)[:100]))
    back = dict((v, k) for k, v in ctx.items())
    out = []
    for (s, p, o) in sink.t:
        row = []
        for n in (s, o):
            if isinstance(n, rdflib.BNode):
                row.append(["BNode", "_:" + back.get(n, "?"), None])
            elif isinstance(n, rdflib.URIRef):
                row.append(["IRI", str(n), None])
            else:
                dt = RDF_LANGSTRING if n.language else (str(n.datatype) if n.datatype is not None else XSD_STRING)
                row.append(["Literal", str(n), dt])
        out.append(row[0][:2] + [str(p)] + row[1])
    return ("ok", out)


def nt_generator_agrees(case, line):
    """-> None (rdflib accepts the line and reads the abstract triple), "rejected: ..." or "disagrees: ..."."""
    r = rdflib_nt(line)
    if r[0] != "ok":
        return "rejected: " + r[1]
    exp = nt_expected(case)
    if exp[3] == "Literal":
        exp = exp[:4] + [unescape(exp[4]), exp[5]]
    if r[1] != [exp]:
        if exp[3] == "Literal" and _RDFLIB_UNQUOTE_QUIRK.search(case[2][1]) and len(r[1]) == 1 \
                and r[1][0][:4] == exp[:4] and r[1][0][5] == exp[5]:
            # rdflib 6.0.2 unquotes with sequential str.replace: an escaped backslash followed by t/n/r/b/f/'/u is
            # decoded twice.  Only the lexical value differs; the line is valid and the generator is kept.
            return "quirk: rdflib unquote"
        return "disagrees: rdflib %r, generator %r" % (r[1], exp)
    return None


_ODD_BS_QUOTE = re.compile(r'(?:^|[^\\])(?:\\\\)+\\"')
_RDFLIB_UNQUOTE_QUIRK = re.compile(r"\\\\[tnrbf'uU]")


def nt_features(case):
    s, p, o, sep1, sep2, sep3, comment = case
    f = set()
    if s[0] == "B" and sep1[:1] == "\t":
        f.add("bnode-subject-followed-by-tab")
    glued = (sep3 == "")                               # the final dot touches the object token
    if o[0] == "B" and glued:
        f.add("dot-glued-to-object")
    if o[0] == "B" and sep3[:1] == "\t":
        f.add("tab-after-object")
    if (s[0] == "B" and s[1] in DOTTED_BNODES) or (o[0] == "B" and o[1] in DOTTED_BNODES):
        f.add("bnode-label-with-dot")
    if o[0] == "L":
        lex, kind = o[1], o[2]
        f.add(kind)
        # tokens of these kinds end at the next blank / tab / end of line (minus a line-final dot)
        if kind in ("dt", "lang") or "^^" in lex:
            if glued:
                f.add("dot-glued-to-object")
            if sep3[:1] == "\t":
                f.add("tab-after-object")
        if "^^" in lex:
            f.add("caret-in-lex")
            if " " in lex[lex.find("^^"):]:
                f.add("caret-then-space-in-lex")
        if lex.startswith("^^") or '\\"^^' in lex:
            f.add("quote-then-caret")
        if _ODD_BS_QUOTE.search(lex):
            f.add("escaped-backslash-then-escaped-quote")
        if '\\"' in lex:
            f.add("escaped-quote")
        if any(ch in lex for ch in LINE_SEPARATORS):
            f.add("line-separator-in-lex")
        if any(x in lex for x in PREFIX_LIKE):
            f.add("prefix-like-in-lex")
        if kind == "dt" and any(x in o[3] for x in PREFIX_LIKE):
            f.add("prefix-like-in-datatype-iri")
        if any(x in comment for x in ("%", "^^", '"', "@")):
            f.add("odd-comment")
    if comment:
        f.add("comment")
    return f


# root-cause categories of C06, in the order in which features claim a deviation of the tokenizer
def _nt_token_cause(f):
    """Root-cause category of a deviation in which the line was cut into the wrong tokens (or None)."""
    if "line-separator-in-lex" in f:
        return "unicode-line-separator-in-literal"
    if "dot-glued-to-object" in f and "comment" in f:
        return "dot-glued-to-object-before-comment"
    if "dot-glued-to-object" in f:
        return "no-space-after-object"
    if "tab-after-object" in f:
        return "no-space-after-object"
    if "odd-comment" in f:
        return "trailing-comment-scanned-as-literal"
    if "bnode-subject-followed-by-tab" in f:
        return "blank-node-subject-followed-by-tab"
    # the recorded '^^' findings are about plain and typed literals: the reader looks for the language tag first, so a
    # language-tagged literal with '^^' in its text is read correctly and any failure on one is a matter of its own
    if "caret-in-lex" in f and "lang" in f:
        return "caret-caret-in-lang-literal"
    if "caret-then-space-in-lex" in f:
        return "caret-caret-then-space-inside-lexical-form"
    if "escaped-backslash-then-escaped-quote" in f and "plain" in f and "caret-in-lex" not in f:
        return "escaped-backslash-then-escaped-quote"
    if "quote-then-caret" in f:
        return "quote-then-caret-caret-in-lexical-form"
    if "caret-in-lex" in f and "plain" in f:
        return "caret-caret-in-plain-literal"
    return None


def nt_classify(case, outcome):
    """-> [(root-cause category, symptom class, description)]: every deviation of one line from its oracle.
    key = "C06:<category>:<symptom class>".  Symptom classes: hang | raise:<ExceptionType> | statement-dropped |
    extra-triple | wrong-node | wrong-content | wrong-datatype | error-count.  A non-termination therefore never
    shares a key with any other symptom.  The category is derived from the features of the input that trigger
    each known defect and from which field deviates; what no rule claims gets the category 'other'."""
    exp = nt_expected(case)
    f = nt_features(case)
    o = case[2]
    st = outcome[0]
    if st == "ok":
        rows, errors = outcome[1]
        if rows == [exp] and errors == 0:
            return []
    tok = _nt_token_cause(f)
    if st == "hang":
        return [(tok or "other", "hang", "hang")]
    if st == "raise":
        cause = tok
        if outcome[2] == "decide_literal_type" and "quote-then-caret" in f and tok in (None, "caret-caret-in-plain-literal"):
            cause = "quote-then-caret-caret-in-lexical-form"
        return [(cause or "other", "raise:" + outcome[1], "raise %s in %s: %s" % (outcome[1], outcome[2], outcome[3][:80]))]
    rows, errors = outcome[1]
    if len(rows) != 1:
        if not rows:
            return [(tok or "other", "statement-dropped", "statement dropped, error_triples=%d" % errors)]
        return [(tok or "other", "extra-triple", "%d triples yielded" % len(rows))]
    got = rows[0]
    out = []
    if errors:
        out.append((tok or "other", "error-count", "error_triples=%d although the triple is yielded" % errors))
    if got[:2] != exp[:2]:
        out.append((tok or "other", "wrong-node", "subject %r instead of %r" % (got[:2], exp[:2])))
    if got[2] != exp[2]:
        out.append((tok or "other", "wrong-node", "predicate %r instead of %r" % (got[2], exp[2])))
    if got[3] != exp[3] or (exp[3] != "Literal" and got[4] != exp[4]):
        out.append((tok or "other", "wrong-node", "object %r instead of %r" % (got[3:], exp[3:])))
        return out
    if exp[3] != "Literal":
        return out
    lex = o[1]
    if got[4] != exp[4]:
        cut = lex.find('\\"')
        sym = "content %r instead of %r" % (got[4], exp[4])
        if cut >= 0 and got[4] == lex[:cut + 1]:
            out.append(("content-truncated-at-escaped-quote", "wrong-content", sym))
        else:
            out.append((tok or "other", "wrong-content", sym))
    if got[5] != exp[5]:
        sym = "datatype %r instead of %r" % (got[5], exp[5])
        hard = tok in ("dot-glued-to-object-before-comment", "no-space-after-object", "trailing-comment-scanned-as-literal",
                       "blank-node-subject-followed-by-tab", "caret-caret-then-space-inside-lexical-form")
        if "caret-in-lex" in f and "lang" in f and not hard:
            cause = "caret-caret-in-lang-literal"
        elif "quote-then-caret" in f and not hard:
            cause = "quote-then-caret-caret-in-lexical-form"
        elif hard:
            cause = tok
        elif "lang" in f and got[5] == XSD_STRING:
            cause = "language-tag-not-detected"
        elif "dt" in f and "prefix-like-in-lex" in f:
            cause = "prefix-like-substring-in-lexical-form"
        elif "dt" in f and "prefix-like-in-datatype-iri" in f:
            cause = "prefix-like-substring-in-datatype-iri"
        else:
            cause = tok or "other"
        out.append((cause, "wrong-datatype", sym))
    return out


LAYOUT_CAUSES = ("no-space-after-object", "dot-glued-to-object-before-comment", "trailing-comment-scanned-as-literal",
                 "blank-node-subject-followed-by-tab")


def without_line_separators(lex):
    for ch in LINE_SEPARATORS:
        lex = lex.replace(ch, "Z")
    return lex


def nt_attribute(case, outcome, read):
    """nt_classify + counterfactuals for the layout (read(variant case) -> outcome of the reader on that line):
      * a deviation that the same triple shows under the default layout too (single blanks, blank before the dot,
        no comment), with the same symptom class, is not caused by the layout: it takes the category found there;
      * what is left and already shows without the comment is put down to the separators;
      * what needs a comment but shows with the harmless comment ' # c' as well is the dot glued to the object;
      * what needs the odd characters of the comment is the comment being scanned as part of the literal;
      * a literal with a line-separator character is first compared with its twin that has a letter in that place:
        only what the twin does not show is put down to the character."""
    devs = nt_classify(case, outcome)
    if not devs:
        return devs
    s, p, o, sep1, sep2, sep3, comment = case
    f = nt_features(case)
    if "bnode-label-with-dot" in f:
        # counterfactual for the label: the same line with plain labels (letters in place of '.', '-' and digits)
        def plain_label(n):
            return (n[0], re.sub(r"[^A-Za-z]", "x", n[1])) + tuple(n[2:]) if n[0] == "B" and n[1] in DOTTED_BNODES else n
        twin = (plain_label(s), p, plain_label(o), sep1, sep2, sep3, comment)
        same = dict((d[1], d[0]) for d in nt_attribute(twin, read(twin), read))
        return [(same.get(sym, "bnode-label-with-dot"), sym, text) for (cat, sym, text) in devs]
    if "line-separator-in-lex" in f:
        # counterfactual for the characters themselves: the same line with a harmless letter in their place
        twin = (s, p, (o[0], without_line_separators(o[1])) + tuple(o[2:]), sep1, sep2, sep3, comment)
        same = dict((d[1], d[0]) for d in nt_attribute(twin, read(twin), read))
        return [(same.get(sym, "unicode-line-separator-in-literal"), sym, text) for (cat, sym, text) in devs]
    if tuple(case[3:]) == DEFAULT_LAYOUT:
        return devs
    plain = dict((d[1], d[0]) for d in nt_classify((s, p, o) + DEFAULT_LAYOUT, read((s, p, o) + DEFAULT_LAYOUT)))
    layout_cause = None
    if any(sym not in plain for (_, sym, _) in devs):
        def shows(variant):
            return any(sym not in plain for (_, sym, _) in nt_classify(variant, read(variant)))
        by_separators = "blank-node-subject-followed-by-tab" if "bnode-subject-followed-by-tab" in f and \
            "dot-glued-to-object" not in f and "tab-after-object" not in f else "no-space-after-object"
        if comment == "" or shows((s, p, o, sep1, sep2, sep3, "")):
            layout_cause = by_separators
        elif comment != " # c" and not shows((s, p, o, sep1, sep2, sep3, " # c")):
            # the recorded finding is about the LITERAL scanner running into the comment; a comment that disturbs a line whose
            # object is an IRI or a blank node is a matter of its own (the scanner must stop at the statement's final dot)
            layout_cause = "trailing-comment-scanned-as-literal" if o[0] == "L" else "trailing-comment-tokenised"
        elif "dot-glued-to-object" in f:
            layout_cause = "dot-glued-to-object-before-comment"
        else:
            layout_cause = "other"
    return [(plain[sym] if sym in plain else layout_cause, sym, text) for (cat, sym, text) in devs]


def nt_complexity(case):
    """How far a line is from the plainest one (default subject, predicate, separators, no comment): reproducers
    are chosen by this first, by length second."""
    s, p, o, sep1, sep2, sep3, comment = case
    n = (tuple(s) != S_DEFAULT) + (p != P_DEFAULT) + (sep1 != " ") + (sep2 != " ") + (sep3 != " ") + (comment != "")
    if o[0] == "L" and o[2] == "dt" and o[3] not in (XSD_ANYURI, DT_FOO, XSD_INTEGER):
        n += 1
    return (n, len(nt_features(case) - set(["plain", "lang", "dt", "comment"])))


def nt_contents(L):
    """All lexical forms of exactly L symbols."""
    for c in itertools.product(SYMBOLS, repeat=L):
        yield "".join(c)


def nt_layouts(all_layouts):
    if not all_layouts:
        return [DEFAULT_LAYOUT]
    return [(sep, sep, pre, com) for sep in SEPS for pre in PRE_DOT for com in COMMENTS]


def nt_literal_cases(L_values, layouts):
    for L in L_values:
        for lex in nt_contents(L):
            for kind, x in SUFFIXES:
                for lay in layouts:
                    yield (S_DEFAULT, P_DEFAULT, ("L", lex, kind, x)) + lay


def nt_node_cases():
    """IRIs with '#', '@', '_', ':' and blank-node labels in every position (default layout), typed literals
    with every datatype IRI; then a small node set under the full product of separators."""
    subjects = [("I", i) for i in IRIS] + [("B", b) for b in BNODES]
    objects = subjects + [("L", "x", "plain", None), ("L", "x", "lang", "en")] + [("L", "x", "dt", i) for i in IRIS]
    for s in subjects:
        for p in [P_DEFAULT] + IRIS:
            for o in objects:
                yield (s, p, o) + DEFAULT_LAYOUT
    small_s = [("I", IRIS[1]), ("B", "b1")]
    small_o = [("I", IRIS[1]), ("B", "b_2"), ("L", "x", "plain", None), ("L", "", "plain", None), ("L", "a 7", "plain", None),
               ("L", "x", "lang", "en-GB"), ("L", "a^^b .", "lang", "en"), ("L", "1", "dt", XSD_INTEGER)]
    for s in small_s:
        for o in small_o:
            for sep1 in SEPS + [" \t"]:
                for sep2 in SEPS + [" \t"]:
                    for sep3 in PRE_DOT + ["  "]:
                        for com in COMMENTS:
                            yield (s, P_DEFAULT, o, sep1, sep2, sep3, com)
            for sep3 in PRE_DOT:
                for com in ODD_COMMENTS:
                    yield (s, P_DEFAULT, o, " ", " ", sep3, com)


def nt_bnode_label_cases():
    """Blank-node labels with '.', '-' and digits inside, as subject, as object and as both (two labels that differ
    after the dot only), under the full product of separators, blank / nothing / tab before the dot, comments."""
    for lab in DOTTED_BNODES:
        other = lab[:-1] + ("2" if lab[-1] != "2" else "3")
        roles = [(("B", lab), ("I", IRIS[1])), (("B", lab), ("L", "x", "plain", None)), (S_DEFAULT, ("B", lab)),
                 (("B", lab), ("B", other)), (("B", "b1"), ("B", lab))]
        for (s, o) in roles:
            for sep1 in SEPS:
                for sep2 in SEPS:
                    for sep3 in PRE_DOT:
                        for com in COMMENTS:
                            yield (s, P_DEFAULT, o, sep1, sep2, sep3, com)


def nt_line_separator_cases():
    """Each character of LINE_SEPARATORS at the start / in the middle / at the end of a plain, a language-tagged and
    a typed literal under every layout, and next to every symbol of the alphabet (default layout)."""
    for ch in LINE_SEPARATORS:
        for lex in (ch + "ab", "a" + ch + "b", "ab" + ch, ch, "a" + ch + ch + "b"):
            for kind, x in SUFFIXES:
                for lay in nt_layouts(True):
                    yield (S_DEFAULT, P_DEFAULT, ("L", lex, kind, x)) + lay
        for sym in SYMBOLS:
            for lex in (sym + ch, ch + sym, sym + ch + sym):
                for kind, x in SUFFIXES:
                    yield (S_DEFAULT, P_DEFAULT, ("L", lex, kind, x)) + DEFAULT_LAYOUT


def nt_line_separator_documents():
    """Documents of 2-3 statements, one of them with a line-separator character in its literal (first / middle / last
    statement; plain, tagged, typed).  -> items for nt_doc_oracle_check."""
    plain = (S_DEFAULT, P_DEFAULT, ("I", IRIS[1])) + DEFAULT_LAYOUT
    other = (("B", "b1"), P_DEFAULT, ("L", "z", "plain", None)) + DEFAULT_LAYOUT
    for ch in LINE_SEPARATORS:
        for kind, x in SUFFIXES:
            for lex in (ch + "ab", "a" + ch + "b", "ab" + ch):
                hot = (S_DEFAULT, P_DEFAULT, ("L", lex, kind, x)) + DEFAULT_LAYOUT
                for items in ([hot, plain], [plain, hot], [plain, hot, other]):
                    yield [("line", c) for c in items]


def nt_doc_oracle_check(items, counterfactual=True):
    """A document of lines (default layout) against the oracle of its abstract triples: rows in document order,
    error_triples == 0.  -> ([(category, symptom class, description)], document).  A deviation that the twin
    document (letters in place of the line-separator characters) shows as well is not put down to them."""
    cases = [x for k, x in items if k == "line"]
    if counterfactual:
        devs, doc = nt_doc_oracle_check(items, counterfactual=False)
        if not devs:
            return devs, doc
        twins = [("line", (c[0], c[1], (c[2][0], without_line_separators(c[2][1])) + tuple(c[2][2:])) + tuple(c[3:])
                  if c[2][0] == "L" else c) for c in cases]
        same = set(d[1] for d in nt_doc_oracle_check(twins, counterfactual=False)[0])
        return [("other" if sym in same else cat, sym, text) for (cat, sym, text) in devs], doc
    doc = "\n".join(nt_line(c) for c in cases) + "\n"
    exp = [nt_expected(c) for c in cases]
    r = read_nt(doc)
    feats = set()
    for c in cases:
        feats |= nt_features(c)
    cat = _nt_token_cause(feats) or "other"
    if r[0] == "hang":
        return [(cat, "hang", "hang")], doc
    if r[0] == "raise":
        return [(cat, "raise:" + r[1], "raise %s in %s: %s" % (r[1], r[2], r[3][:80]))], doc
    rows, errors = r[1]
    out = []
    if len(rows) != len(exp):
        out.append((cat, "statement-dropped" if len(rows) < len(exp) else "extra-triple",
                    "%d triple(s) yielded from %d statements, error_triples=%d" % (len(rows), len(exp), errors)))
    elif rows != exp:
        i = [a != b for a, b in zip(rows, exp)].index(True)
        out.append((cat, "wrong-node" if rows[i][:4] != exp[i][:4] or exp[i][3] != "Literal" else
                    "wrong-content" if rows[i][4] != exp[i][4] else "wrong-datatype", "statement %d: %r instead of %r" % (i + 1, rows[i], exp[i])))
    elif errors:
        out.append((cat, "error-count", "error_triples=%d" % errors))
    return out, doc


# ------------------------------------------------------------------------------------------------
# C06: several files through list_of_source_files (MultiNtTriplesYielder / MultiZipTriplesYielder)
# ------------------------------------------------------------------------------------------------
MALFORMED_LINES = ["<http://ex.org/s> <http://ex.org/p> .", "this is not a statement", "<http://ex.org/s> .",
                   "<http://ex.org/a> <http://ex.org/b> <http://ex.org/c> <http://ex.org/d> ."]
FILE_SHAPES = ["G", "GG", "GBG", "BGB", "B", "GGB"]        # G = a good statement, B = a malformed line (to be counted)


def multifile_cases():
    """2 and 3 files of every combination of FILE_SHAPES (plain files), the 2-file combinations again as members
    of one ZIP archive and as two ZIP archives of one or two members."""
    import itertools as it
    for n in (2, 3):
        for shapes in it.product(FILE_SHAPES, repeat=n):
            yield {"files": list(shapes), "container": "plain"}
    for shapes in it.product(FILE_SHAPES, repeat=2):
        yield {"files": list(shapes), "container": "one-zip"}
        yield {"files": list(shapes) + [shapes[0]], "container": "two-zips"}
    # compressed members: valid documents only (no malformed line), gz and xz, as a LIST of 1-3 files
    # (list_of_source_files + compression_mode) and, as controls, as a single file (source_file + compression_mode)
    valid = ["G", "GG", "GGG"]
    for comp in ("gz", "xz"):
        for n in (1, 2, 3):
            for shapes in it.product(valid, repeat=n):
                yield {"files": list(shapes), "container": comp + "-list"}
        for shape in valid:
            yield {"files": [shape], "container": comp + "-single"}
    for shape in valid:
        yield {"files": [shape], "container": "zip-single"}


def multifile_content(case):
    """-> (file texts, expected rows in order, expected error_triples seen while each row is yielded, total errors).
    Good statements are plain ones (IRIs, a blank node, plain / typed / tagged literals without any special character)."""
    texts, rows, errs_at, n, bad = [], [], [], 0, 0
    for fi, shape in enumerate(case["files"]):
        lines = []
        for ch in shape:
            if ch == "G":
                n += 1
                o = [("I", "http://ex.org/o%d" % n), ("L", "v%d" % n, "plain", None), ("L", "w%d" % n, "dt", DT_FOO),
                     ("B", "n%d" % n), ("L", "t%d" % n, "lang", "en")][n % 5]
                c = (("I", "http://ex.org/f%d/s%d" % (fi, n)), P_DEFAULT, o) + DEFAULT_LAYOUT
                lines.append(nt_line(c))
                rows.append(nt_expected(c))
                errs_at.append(bad)
            else:
                lines.append(MALFORMED_LINES[bad % len(MALFORMED_LINES)])
                bad += 1
        texts.append("\n".join(lines) + "\n")
    return texts, rows, errs_at, bad


def read_multifile(case, wall=WALL_SECONDS):
    """Writes the files of the case into a fresh temporary directory and reads them through sheXer's own factory
    (get_triple_yielder(list_of_source_files=..., input_format='nt'[, compression_mode='zip'])), observing
    error_triples while every triple is yielded and at the end."""
    import os
    import shutil
    import tempfile
    import zipfile
    U.env()
    import shexer.utils.factories.triple_yielders_factory as F
    texts = multifile_content(case)[0]
    d = tempfile.mkdtemp(prefix="verif_readers_")
    try:
        paths = []
        for i, t in enumerate(texts):
            pth = os.path.join(d, "f%d.nt" % i)
            with open(pth, "w", encoding="utf-8") as fh:
                fh.write(t)
            paths.append(pth)
        kw = {"list_of_source_files": paths, "input_format": "nt"}
        container = case["container"]
        if container.split("-")[0] in ("gz", "xz"):
            import gzip
            import lzma
            packed = []
            for pth in paths:
                with open(pth, "rb") as fh:
                    data = fh.read()
                out = pth + "." + container[:2]
                with (gzip.open(out, "wb") if container.startswith("gz") else lzma.open(out, "wb", format=lzma.FORMAT_XZ)) as fh:
                    fh.write(data)
                os.remove(pth)                                       # only the compressed member is there to be read
                packed.append(out)
            kw = {"input_format": "nt", "compression_mode": container[:2]}
            if container.endswith("-single"):
                kw["source_file"] = packed[0]
            else:
                kw["list_of_source_files"] = packed
        elif container == "zip-single":
            zp = os.path.join(d, "single.zip")
            with zipfile.ZipFile(zp, "w") as z:
                z.write(paths[0], arcname=os.path.basename(paths[0]))
            os.remove(paths[0])
            kw = {"source_file": zp, "input_format": "nt", "compression_mode": "zip"}
        elif case["container"] != "plain":
            groups = [paths] if case["container"] == "one-zip" else [paths[:1], paths[1:]]
            zips = []
            for zi, members in enumerate(groups):
                zp = os.path.join(d, "z%d.zip" % zi)
                with zipfile.ZipFile(zp, "w") as z:
                    for m in members:
                        z.write(m, arcname=os.path.basename(m))
                zips.append(zp)
            kw = {"list_of_source_files": zips, "input_format": "nt", "compression_mode": "zip"}

        def go():
            y = F.get_triple_yielder(**kw)
            out = []
            for (s, p, o) in y.yield_triples():
                vs, vo = _view(s), _view(o)
                out.append(([vs[0], vs[1], str(p), vo[0], vo[1], vo[2] if vo[0] == "Literal" else None], y.error_triples))
            return out, y.error_triples, y.yielded_triples, type(y).__name__
        return guarded(go, cpu=None, wall=wall)
    finally:
        shutil.rmtree(d, ignore_errors=True)


def multifile_classify(case, outcome):
    """-> [("multi-file", symptom class, description)]; symptom classes hang | raise:<T> | order | content | error-count."""
    texts, rows, errs_at, bad = multifile_content(case)
    if bad > 0:
        return []       # C06 speaks about VALID documents ("counts zero error lines"): files with malformed lines are outside its domain
    # several archives go through MultiZipTriplesYielder, whose totals are a matter of their own
    cat = "multi-zip" if case["container"] == "two-zips" else "multi-file"
    if case["container"].split("-")[0] in ("gz", "xz") or case["container"] == "zip-single":
        cat = "multi-file:compressed"
    if outcome[0] == "hang":
        return [(cat, "hang", "hang (%s)" % case["container"])]
    if outcome[0] == "raise":
        return [(cat, "raise:" + outcome[1], "%s: raise %s in %s: %s" % (case["container"], outcome[1], outcome[2], outcome[3][:80]))]
    seen, errors, yielded, cls = outcome[1]
    got = [r for (r, e) in seen]
    if got != rows:
        if sorted(map(repr, got)) == sorted(map(repr, rows)):
            return [(cat, "order", "%s yields the triples of the files in another order" % cls)]
        return [(cat, "content", "%s (%s): %d triples yielded, %d expected, error_triples=%d; first difference %r"
                 % (cls, case["container"], len(got), len(rows), errors, next(((g, e) for g, e in zip(got, rows) if g != e), None)))]
    out = []
    during = [e for (r, e) in seen]
    if during != errs_at:
        i = [a != b for a, b in zip(during, errs_at)].index(True)
        out.append((cat, "error-count", "%s.error_triples is %d while triple %d is yielded (%d malformed lines so far)"
                    % (cls, during[i], i + 1, errs_at[i])))
    elif errors != bad:
        out.append((cat, "error-count", "%s.error_triples is %d at the end, %d malformed lines in the files" % (cls, errors, bad)))
    # the yielded_triples counter is not part of the statement (MultiZipTriplesYielder counts its last archive twice there: noted in DESIGN.md,
    # not a C06 finding)
    return out


def nt_random_case(rng, lo=4, hi=8):
    alphabet = SYMBOLS + EXTRA_SYMBOLS
    lex = "".join(rng.choice(alphabet) for _ in range(rng.randint(lo, hi)))
    r = rng.random()
    if r < 0.3:
        o = ("L", lex, "plain", None)
    elif r < 0.55:
        o = ("L", lex, "lang", rng.choice(["en", "en-GB", "es", "zh-Hant"]))
    elif r < 0.9:
        o = ("L", lex, "dt", rng.choice([XSD_ANYURI, DT_FOO] + IRIS))
    elif r < 0.95:
        o = ("I", rng.choice(IRIS))
    else:
        o = ("B", rng.choice(BNODES))
    s = ("I", rng.choice(IRIS)) if rng.random() < 0.8 else ("B", rng.choice(BNODES))
    if rng.random() < 0.6:
        lay = DEFAULT_LAYOUT
    else:
        lay = (rng.choice(SEPS), rng.choice(SEPS), rng.choice(PRE_DOT), rng.choice(COMMENTS + COMMENTS + ODD_COMMENTS))
    return (s, rng.choice(IRIS), o) + lay


# ------------------------------------------------------------------------------------------------
# C06: documents (several lines, blank lines, comment lines)
# ------------------------------------------------------------------------------------------------
COMMENT_LINES = ["# a comment", "#", "   # indented comment", "# <http://ex.org/a> <http://ex.org/b> <http://ex.org/c> ."]


def nt_doc_check(items):
    """items: [("line", case) | ("comment", text) | ("blank", text)].  The document is compared with the
    line-wise behaviour of the reader itself (lines that deviate on their own are reported by the line
    cases): -> (evaluated?, [(category, symptom class, description)], document)."""
    texts, per_line = [], []
    for kind, x in items:
        if kind == "line":
            line = nt_line(x)
            r = read_nt(line)
            if r[0] != "ok":
                return False, [], None
            per_line.append(r[1])
            texts.append(line)
        else:
            texts.append(x)
            per_line.append(([], 0))
    doc = "\n".join(texts) + "\n"
    r = read_nt(doc)
    comments = [x for k, x in items if k == "comment"]
    cat = "comment-line-not-recognised" if comments else "document-differs-from-its-lines"
    if r[0] == "hang":
        return True, [(cat, "hang", "hang although every line is read alone")], doc
    if r[0] == "raise":
        return True, [(cat, "raise:" + r[1], "raise %s in %s although every line is read alone" % (r[1], r[2]))], doc
    rows, errors = r[1]
    want_rows = [row for (rs, e) in per_line for row in rs]
    want_err = sum(e for (rs, e) in per_line)
    out = []
    if rows != want_rows:
        out.append((cat, "extra-triple" if len(rows) > len(want_rows) else "statement-dropped" if len(rows) < len(want_rows) else "wrong-node",
                    "%d triple(s) yielded, the lines one by one give %d%s" % (len(rows), len(want_rows),
                                                                             " (%d comment line(s))" % len(comments) if comments else "")))
    if errors != want_err:
        out.append((cat, "error-count", "error_triples=%d, the lines one by one give %d%s"
                    % (errors, want_err, " (%d comment line(s))" % len(comments) if comments else "")))
    return True, out, doc


# ================================================================================================
# C07: Turtle documents in the reader's dialect
# ================================================================================================
NS_EX = "http://ex.org/"
NS_DEF = "http://default.org/"
BASE = "http://base.org/dir/"
HEADER_PREFIXES = [("rdf", RDF), ("ex", NS_EX), ("", NS_DEF), ("xsd", XSD)]

# A term is (written text, token kind, abstract node); abstract node = ["IRI", iri] | ["BNode", "_:label"] |
# ["Literal", lexical value (unescaped), datatype].  Token kinds: pname iri bnode a int plain lang typed.
# 'flags' mark what a writing exercises (used by the classifier to attribute a deviation to its root cause).


def _t(text, kind, node, *flags):
    return {"text": text, "kind": kind, "node": node, "flags": list(flags)}


def _lit(text, kind, lex, dt, *flags):
    return _t(text, kind, ["Literal", lex, dt], *flags)


T_SUBJECTS = [
    _t("ex:s1", "pname", ["IRI", NS_EX + "s1"]),
    _t("<http://ex.org/s1>", "iri", ["IRI", NS_EX + "s1"]),
    _t(":s2", "pname", ["IRI", NS_DEF + "s2"]),
    _t("_:b1", "bnode", ["BNode", "_:b1"]),
    _t("<r1>", "iri", ["IRI", BASE + "r1"], "base"),
    _t("<#frag>", "iri", ["IRI", BASE + "#frag"], "base", "base-fragment-or-path"),
    _t("</abs>", "iri", ["IRI", "http://base.org/abs"], "base", "base-fragment-or-path"),
    _t("<urn:ex:a>", "iri", ["IRI", "urn:ex:a"], "non-http-iri"),
    _t("<https://ex.org/s9>", "iri", ["IRI", "https://ex.org/s9"]),
]
T_PREDICATES = [
    _t("ex:p", "pname", NS_EX + "p"),
    _t("<http://ex.org/p>", "iri", NS_EX + "p"),
    _t("a", "a", RDF_TYPE),
    _t("rdf:type", "pname", RDF_TYPE),
    _t(":q", "pname", NS_DEF + "q"),
    _t("<rp>", "iri", BASE + "rp", "base"),
    _t("<https://ex.org/p9>", "iri", "https://ex.org/p9"),
]
T_LITERALS = [
    _lit('"x"', "plain", "x", XSD_STRING),
    _lit('""', "plain", "", XSD_STRING, "empty-literal"),
    _lit('"say \\"hi\\""', "plain", 'say "hi"', XSD_STRING, "escaped-quote"),
    _lit('"a\\\\"', "plain", "a\\", XSD_STRING, "ends-with-escaped-backslash"),
    _lit('"\\\\"', "plain", "\\", XSD_STRING, "ends-with-escaped-backslash"),               # the literal is ONE escaped backslash
    _lit('"\\\\\\\\"', "plain", "\\\\", XSD_STRING, "ends-with-escaped-backslash"),   # two escaped backslashes
    _lit('"\\\\"@en', "lang", "\\", RDF_LANGSTRING, "lang", "ends-with-escaped-backslash"),
    _lit('"x # y"', "plain", "x # y", XSD_STRING, "hash-in-literal"),
    _lit('"a;b"', "plain", "a;b", XSD_STRING),
    _lit('"c , d ."', "plain", "c , d .", XSD_STRING),
    _lit('"hi"@en', "lang", "hi", RDF_LANGSTRING, "lang"),
    _lit('"hi"@en-GB', "lang", "hi", RDF_LANGSTRING, "lang"),
    _lit('"1"^^xsd:integer', "typed", "1", XSD_INTEGER),
    _lit('"2"^^<http://www.w3.org/2001/XMLSchema#integer>', "typed", "2", XSD_INTEGER),
    _lit('"v"^^ex:dt', "typed", "v", NS_EX + "dt", "custom-prefixed-datatype"),
    _lit('"w"^^<http://ex.org/dt/foo>', "typed", "w", DT_FOO),
    _lit('42', "int", "42", XSD_INTEGER),
    _lit('-7', "int", "-7", XSD_INTEGER),
]
T_OBJECTS = [
    _t("ex:o1", "pname", ["IRI", NS_EX + "o1"]),
    _t("<http://ex.org/o2>", "iri", ["IRI", NS_EX + "o2"]),
    _t(":o3", "pname", ["IRI", NS_DEF + "o3"]),
    _t("_:b2", "bnode", ["BNode", "_:b2"]),
    _t("<r2>", "iri", ["IRI", BASE + "r2"], "base"),
    _t("<#f2>", "iri", ["IRI", BASE + "#f2"], "base", "base-fragment-or-path"),
    _t("</abs2>", "iri", ["IRI", "http://base.org/abs2"], "base", "base-fragment-or-path"),
    _t("<urn:ex:b>", "iri", ["IRI", "urn:ex:b"], "non-http-iri"),
    _t("<https://ex.org/o9>", "iri", ["IRI", "https://ex.org/o9"]),
] + T_LITERALS


def _by_text(lst):
    return dict((t["text"], t) for t in lst)


SUBJ, PRED, OBJ = _by_text(T_SUBJECTS), _by_text(T_PREDICATES), _by_text(T_OBJECTS)
PUNCT = {",": "punct", ";": "punct", ".": "punct"}


def ttl_header(with_base):
    lines = ["@prefix %s: <%s> ." % pn for pn in HEADER_PREFIXES]
    if with_base:
        lines.append("@base <%s> ." % BASE)
    return "\n".join(lines) + "\n"


def ttl_tokens(groups):
    """groups: [[subject text, [[predicate text, [object text, ...]], ...], trailing_semicolon], ...]
    -> (tokens [(text, kind, flags)], expected rows in document order)."""
    toks, rows = [], []
    for g in groups:
        s, pos = SUBJ[g[0]], g[1]
        trailing = bool(g[2]) if len(g) > 2 else False
        toks.append((s["text"], s["kind"], s["flags"]))
        for i, (ptext, objs) in enumerate(pos):
            p = PRED[ptext]
            if i:
                toks.append((";", "punct", []))
            toks.append((p["text"], p["kind"], p["flags"]))
            for j, otext in enumerate(objs):
                o = OBJ[otext]
                if j:
                    toks.append((",", "punct", []))
                toks.append((o["text"], o["kind"], o["flags"]))
                n = o["node"]
                rows.append(s["node"] + [p["node"]] + (n + [None] if n[0] != "Literal" else n))
        if trailing:
            toks.append((";", "punct", ["trailing-semicolon"]))
        toks.append((".", "punct", []))
    return toks, rows


def ttl_needs_base(groups):
    toks, _ = ttl_tokens(groups)
    return any("base" in fl for (_, _, fl) in toks)


def ttl_text(case):
    """case = {"groups": ..., "seps": [separator after token i] (last one closes the document),
    "base": bool, "lead": text before the first token}.  A separator containing '#' is a comment and ends
    with a newline."""
    toks, _ = ttl_tokens(case["groups"])
    seps = case["seps"]
    body = case.get("lead", "")
    for (tok, sep) in zip(toks, seps):
        body += tok[0] + sep
    return ttl_header(case.get("base", False)) + body


_RDFLIB_TTL = []


def rdflib_ttl(text):
    """rdflib's Turtle parser: -> ("ok", rows [ks, s, p, ko, o, dt]) | ("rejected", message).  rdflib renames
    blank nodes: their identifiers come back as "_:?<rdflib id>" and are matched up to a bijection by same_graph."""
    if not _RDFLIB_TTL:
        import rdflib
        _RDFLIB_TTL.append(rdflib)
    rdflib = _RDFLIB_TTL[0]
    g = rdflib.Graph()
    try:
        g.parse(data=text, format="turtle")
    except Exception as exc:
        return ("rejected", "%s: %s" % (type(exc).__name__, str(exc)[:100].replace("\n", " ")))
    rows = []
    for (s, p, o) in g:
        row = []
        for n in (s, o):
            if isinstance(n, rdflib.BNode):
                row.append(["BNode", "_:?" + str(n), None])
            elif isinstance(n, rdflib.URIRef):
                row.append(["IRI", str(n), None])
            else:
                dt = RDF_LANGSTRING if n.language else (str(n.datatype) if n.datatype is not None else XSD_STRING)
                row.append(["Literal", str(n), dt])
        rows.append(row[0][:2] + [str(p)] + row[1])
    return ("ok", rows)


def _bnodes(rows):
    out = []
    for r in rows:
        for i in (0, 3):
            if r[i] == "BNode" and r[i + 1] not in out:
                out.append(r[i + 1])
    return out


def same_graph(ref_rows, rows):
    """Are the two row collections the same set of triples up to a renaming of the referee's blank nodes?"""
    want = sorted(set(repr(list(r)) for r in rows))
    ref_b, b = _bnodes(ref_rows), _bnodes(rows)
    if len(ref_b) != len(b) or len(b) > 6:
        return False
    for perm in itertools.permutations(b):
        m = dict(zip(ref_b, perm))
        got = sorted(set(repr([r[0], m.get(r[1], r[1]) if r[0] == "BNode" else r[1], r[2], r[3],
                               m.get(r[4], r[4]) if r[3] == "BNode" else r[4], r[5]]) for r in ref_rows))
        if got == want:
            return True
    return False


def ttl_norm_rows(rows):
    """sheXer's rows with literal contents unescaped (sheXer keeps the escaped text), for comparison with rdflib."""
    out = []
    for r in rows:
        r = list(r)
        if r[3] == "Literal" and r[4] is not None:
            r[4] = unescape(r[4])
        out.append(r)
    return out


def ttl_lines(text):
    return text.split("\n")


def ttl_layout_features(case):
    """What the layout / the terms of a document exercise: set of feature names."""
    toks, _ = ttl_tokens(case["groups"])
    seps = case["seps"]
    f = set()
    for fl in (t[2] for t in toks):
        f.update(fl)
    col0 = True if "\n" in case.get("lead", "") or case.get("lead", "") == "" else False
    first_literal_seen_on_line = False
    line_has_literal_trouble = False
    for i, ((text, kind, fl), sep) in enumerate(zip(toks, seps)):
        is_lit = kind in ("plain", "lang", "typed")
        at_eol = "\n" in sep
        comment = "#" in sep
        if is_lit:
            if first_literal_seen_on_line and "hash-in-literal" in fl:
                f.add("hash-in-later-literal-of-line")
            if not first_literal_seen_on_line and (col0 or "empty-literal" in fl or "ends-with-escaped-backslash" in fl):
                line_has_literal_trouble = True
            if not first_literal_seen_on_line and col0 and "hash-in-literal" in fl:
                f.add("hash-in-literal-at-line-start")
            first_literal_seen_on_line = True
        if comment and line_has_literal_trouble:
            f.add("comment-after-literal-with-unfound-bounds")
        if at_eol:
            if kind in ("pname", "bnode", "int", "a", "typed"):
                f.add("eol-token")
            if kind == "plain":
                f.add("eol-plain-literal")
            first_literal_seen_on_line = False
            line_has_literal_trouble = False
            col0 = True
        else:
            col0 = False
    return f


def ttl_complexity(case):
    """How far a document is from the plainest one: (features exercised, separators other than one blank)."""
    seps = case["seps"][:-1]
    return (len(ttl_layout_features(case)) + (1 if case.get("base") else 0), sum(1 for x in seps if x != " ") + (1 if case.get("lead") else 0))


def _row_diff(got, exp):
    """which fields of a row differ: list of (field, got, exp)."""
    d = []
    if got[:2] != exp[:2]:
        d.append(("subject", got[:2], exp[:2]))
    if got[2] != exp[2]:
        d.append(("predicate", got[2], exp[2]))
    if got[3] != exp[3]:
        d.append(("object-kind", got[3:], exp[3:]))
    elif exp[3] != "Literal":
        if got[4] != exp[4]:
            d.append(("object", got[4], exp[4]))
    else:
        if got[4] != exp[4]:
            d.append(("content", got[4], exp[4]))
        if got[5] != exp[5]:
            d.append(("datatype", got[5], exp[5]))
    return d


def ttl_classify(case, outcome, exp_rows):
    """-> [(root-cause category, symptom class, description)]: the first deviation of a document from its expected
    rows.  key = "C07:<category>:<symptom class>"; symptom classes: hang | raise:<ExceptionType> | wrong-node |
    wrong-content | wrong-datatype | extra-triple | missing-triple.  The category comes from the symptom (exception
    site / which field differs how) and the features of the document; what no rule claims is 'other'."""
    f = ttl_layout_features(case)
    st = outcome[0]

    def feature_cause():
        # features that are known to upset the reader, most specific first
        if "comment-after-literal-with-unfound-bounds" in f or "hash-in-literal-at-line-start" in f:
            return "comment-literal-bounds-not-found"
        if "hash-in-later-literal-of-line" in f:
            return "comment-hash-inside-later-literal"
        return None

    if st == "hang":
        return [(feature_cause() or "other", "hang", "hang")]
    if st == "raise":
        etype, where = outcome[1], outcome[2]
        sym = "raise %s in %s: %s" % (etype, where, outcome[3][:80])
        cause = None
        if etype == "IndexError" and where == "_find_next_quoted_literal_ending" and "eol-plain-literal" in f:
            cause = "literal-closing-quote-at-end-of-line"
        elif etype == "ValueError" and where == "_find_next_quoted_literal_ending" and "lang" in f:
            cause = "language-tag"
        elif etype == "RuntimeError" and where == "decide_literal_type" and "custom-prefixed-datatype" in f:
            cause = "custom-prefix-datatype"
        elif etype == "IndexError" and where == "_remove_comments_if_needed" and "comment-after-literal-with-unfound-bounds" in f:
            cause = "comment-literal-bounds-not-found"
        elif etype == "ValueError" and where == "_find_next_unescaped_quotes" and "hash-in-later-literal-of-line" in f:
            cause = "comment-hash-inside-later-literal"
        elif feature_cause():
            cause = feature_cause()
        elif "eol-token" in f and where in ("_parse_elem", "unprefixize_uri_mandatory", "_assing_tmp_element_and_promote_state",
                                            "decide_literal_type", "tune_subj", "tune_token", "remove_corners"):
            cause = "line-final-token"
        return [(cause or "other", "raise:" + etype, sym)]
    got = ttl_norm_rows(outcome[1])
    if got == exp_rows:
        return []
    pre = []
    if len(got) != len(exp_rows) and "trailing-semicolon" in f:
        dedup = [r for i, r in enumerate(got) if i == 0 or r != got[i - 1]]
        if len(dedup) == len(exp_rows):
            pre.append(("trailing-semicolon", "extra-triple", "%d triples yielded, %d expected: the triple before '; .' is yielded again"
                        % (len(got), len(exp_rows))))
            got = dedup
            if got == exp_rows:
                return pre
    if len(got) != len(exp_rows):
        sym = "%d triples yielded, %d expected" % (len(got), len(exp_rows))
        cause = feature_cause() or ("line-final-token" if "eol-token" in f else "other")
        return pre + [(cause, "extra-triple" if len(got) > len(exp_rows) else "missing-triple", sym)]
    out = []
    for g, e in zip(got, exp_rows):
        for (field, gv, ev) in _row_diff(g, e):
            sym = "%s %r instead of %r" % (field, gv, ev)
            gs = gv[1] if field == "subject" else gv
            es = ev[1] if field == "subject" else ev
            cls = {"content": "wrong-content", "datatype": "wrong-datatype"}.get(field, "wrong-node")
            strs = isinstance(gs, str) and isinstance(es, str)
            if field in ("subject", "predicate", "object") and strs and "base-fragment-or-path" in f \
                    and (es.startswith(BASE + "#") or es.startswith("http://base.org/abs")):
                out.append(("base-fragment-or-path-reference", cls, sym))
            elif field in ("subject", "predicate", "object") and strs and es.startswith("urn:") and case.get("base"):
                out.append(("base-non-http-absolute-iri", cls, sym))
            elif field == "content" and "escaped-quote" in f and strs and es.startswith(gs.rstrip("\\")) and '"' in es:
                out.append(("content-truncated-at-escaped-quote", cls, sym))
            elif field == "datatype" and "lang" in f and ev == RDF_LANGSTRING:
                out.append(("language-tag", cls, sym))
            elif strs and gs == es[:-1] and "eol-token" in f:
                out.append(("line-final-token", cls, sym))
            else:
                out.append((feature_cause() or "other", cls, sym))
        if out:
            break
    return pre + (out or [("other", "wrong-node", "rows differ")])


# ------------------------------------------------------------------------------------------------
# C07 generators
# ------------------------------------------------------------------------------------------------
# shapes: statement groups as index patterns over (subject, predicate, object) palettes
def _shape_groups(shape, S, P, O):
    """shape in: spo | spo,o | spo;po | spo;po,o | spo.spo | spo;. ; S/P/O: lists of term texts cycled through."""
    si, pi, oi = itertools.cycle(S), itertools.cycle(P), itertools.cycle(O)
    if shape == "spo":
        return [[next(si), [[next(pi), [next(oi)]]], False]]
    if shape == "spo,o":
        return [[next(si), [[next(pi), [next(oi), next(oi)]]], False]]
    if shape == "spo;po":
        return [[next(si), [[next(pi), [next(oi)]], [next(pi), [next(oi)]]], False]]
    if shape == "spo;po,o":
        return [[next(si), [[next(pi), [next(oi)]], [next(pi), [next(oi), next(oi)]]], False]]
    if shape == "spo.spo":
        return [[next(si), [[next(pi), [next(oi)]]], False], [next(si), [[next(pi), [next(oi)]]], False]]
    if shape == "spo;.":
        return [[next(si), [[next(pi), [next(oi)]]], True]]
    raise ValueError(shape)


SHAPES = ["spo", "spo,o", "spo;po", "spo;po,o", "spo.spo", "spo;."]
PALETTES = [
    ("pname", ["ex:s1", ":s2"], ["ex:p", ":q"], ["ex:o1", ":o3", "ex:o1"]),
    ("iri", ["<http://ex.org/s1>"], ["<http://ex.org/p>"], ["<http://ex.org/o2>"]),
    ("a-bnode-int", ["_:b1", "ex:s1"], ["a", "ex:p"], ["ex:o1", "42", "_:b2"]),
    ("iri-plain-literals", ["<http://ex.org/s1>"], ["<http://ex.org/p>"], ['"x"', '"a;b"', '"c , d ."']),
    ("iri-typed-literals", ["<http://ex.org/s1>"], ["<http://ex.org/p>"],
     ['"1"^^xsd:integer', '"w"^^<http://ex.org/dt/foo>', '"2"^^<http://www.w3.org/2001/XMLSchema#integer>']),
    ("iri-relative", ["<r1>"], ["<rp>", "<http://ex.org/p>"], ["<r2>", "<http://ex.org/o2>"]),
]


def ttl_exhaustive_cases(separators=(" ", "\n"), max_tokens=9):
    """Every placement of the separators at every token boundary of every (shape, palette) base document."""
    for shape in SHAPES:
        for (pname, S, P, O) in PALETTES:
            groups = _shape_groups(shape, S, P, O)
            toks, _ = ttl_tokens(groups)
            if len(toks) > max_tokens:
                continue
            base = ttl_needs_base(groups)
            for seps in itertools.product(separators, repeat=len(toks) - 1):
                yield {"groups": groups, "seps": list(seps) + ["\n"], "base": base, "lead": "", "family": "exhaustive:%s:%s" % (shape, pname)}


def ttl_term_cases():
    """Canonical layout (one statement per line, single blanks): every subject x predicate writing with a plain
    object, every object writing, with and without @base; then every literal with a trailing comment, in the
    middle of its line and first on its line."""
    def one(s, p, o, base, seps=None, fam="terms"):
        groups = [[s, [[p, [o]]], False]]
        b = base or ttl_needs_base(groups)
        return {"groups": groups, "seps": seps or [" ", " ", " ", "\n"], "base": b, "lead": "", "family": fam}
    for s in SUBJ:
        for p in PRED:
            yield one(s, p, "<http://ex.org/o2>", False)
            if SUBJ[s]["kind"] == "iri" or PRED[p]["kind"] == "iri":
                yield one(s, p, "<http://ex.org/o2>", True)      # absolute <...> terms with @base in force
    for o in OBJ:
        for base in (False, True):
            yield one("<http://ex.org/s1>", "<http://ex.org/p>", o, base)
            yield one("ex:s1", "a" if OBJ[o]["kind"] in ("pname", "iri") else "ex:p", o, base)
    for o in (t["text"] for t in T_LITERALS):
        yield one("<http://ex.org/s1>", "<http://ex.org/p>", o, False, [" ", " ", " ", " # c\n"], "comments")
        yield one("<http://ex.org/s1>", "<http://ex.org/p>", o, False, [" ", "\n", " ", " # c\n"], "comments")
        yield one("<http://ex.org/s1>", "<http://ex.org/p>", o, False, [" # c\n", " # c\n", " ", "\n# c\n"], "comments")
        yield one("<http://ex.org/s1>", "<http://ex.org/p>", o, False, [" ", " ", " ", " # see \"q\" ; , .\n"], "comments")
        yield one("<http://ex.org/s1>", "<http://ex.org/p>", o, False, [" ", "\n", " ", " # see \"q\" ; , .\n"], "comments")
        for o2 in ('"x"', '"x # y"'):
            groups = [["<http://ex.org/s1>", [["<http://ex.org/p>", [o, o2]]], False]]
            yield {"groups": groups, "seps": [" ", " ", " ", " ", " ", "\n"], "base": False, "lead": "", "family": "comments"}
            yield {"groups": groups, "seps": [" ", " ", " ", " ", " ", " # c\n"], "base": False, "lead": "", "family": "comments"}


RICH_SEPS = [" ", " ", " ", "\n", "\n", "\t", "  ", "\n    ", " \n", " # c\n", "\n# whole-line comment\n", "\n\n", " # see \"q\" ; , .\n"]


def ttl_random_case(rng, safe_layout=False):
    groups = []
    for _ in range(rng.randint(1, 3)):
        pos = []
        for _ in range(rng.randint(1, 3)):
            pos.append([rng.choice(list(PRED)), [rng.choice(list(OBJ)) for _ in range(rng.randint(1, 3))]])
        groups.append([rng.choice(list(SUBJ)), pos, rng.random() < 0.08])
    # no duplicate triples: the reader's yields are compared as a list with the duplicate-free expectation
    toks, rows = ttl_tokens(groups)
    seen = set()
    for r in rows:
        if repr(r) in seen:
            return ttl_random_case(rng, safe_layout)
        seen.add(repr(r))
    if safe_layout:
        # line breaks only after punctuation (the house style of the test graphs), blanks elsewhere
        seps = []
        for (text, kind, fl) in toks:
            seps.append(rng.choice(["\n", "\n  ", " # c\n", "\n# c\n"]) if kind == "punct" and rng.random() < 0.8 else rng.choice([" ", " ", "\t", "  "]))
    else:
        seps = [rng.choice(RICH_SEPS) for _ in toks]
    if "\n" not in seps[-1]:
        seps[-1] = seps[-1] + "\n"
    lead = rng.choice(["", "", "# leading comment\n", "\n", "  "])
    return {"groups": groups, "seps": seps, "base": ttl_needs_base(groups) or rng.random() < 0.2, "lead": lead,
            "family": "random-safe" if safe_layout else "random"}


H = ttl_header(True)
OUTSIDE_DIALECT = [
    ("anonymous-node", H + "ex:s1 ex:p [ ex:q ex:o1 ] .\n"),
    ("anonymous-node", H + "ex:s1 ex:p [ ex:q ex:o1 ; ex:r \"x\" ] ; ex:t ex:o2 .\n"),
    ("anonymous-node", H + "[ ex:q ex:o1 ] ex:p ex:o2 .\n"),
    ("anonymous-node", H + "ex:s1 ex:p [\n  ex:q ex:o1\n] .\n"),
    ("anonymous-node", H + "ex:s1 ex:p [ a ex:C ] .\n"),
    ("anonymous-node", H + "ex:s1 ex:p [ ] .\n"),
    ("anonymous-node", H + "ex:s1 ex:p [] .\n"),
    ("anonymous-node", H + "[] ex:p ex:o1 .\n"),
    ("anonymous-node", H + "<http://ex.org/s1> <http://ex.org/p> [ <http://ex.org/q> <http://ex.org/o> ] .\n"),
    ("collection", H + "ex:s1 ex:p ( ex:a ex:b ) .\n"),
    ("collection", H + "ex:s1 ex:p ( 1 2 ) .\n"),
    ("collection", H + "ex:s1 ex:p ( ) .\n"),
    ("collection", H + "ex:s1 ex:p () .\n"),
    ("collection", H + "( ex:a ) ex:p ex:o1 .\n"),
    ("collection", H + "ex:s1 ex:p (\n ex:a\n ex:b\n) .\n"),
    ("collection", H + "<http://ex.org/s1> <http://ex.org/p> ( <http://ex.org/a> <http://ex.org/b> ) .\n"),
    ("multi-line-string", H + 'ex:s1 ex:p """first\nsecond""" .\n'),
    ("multi-line-string", H + 'ex:s1 ex:p """first\nex:a ex:b ex:c .\n""" .\n'),
    ("multi-line-string", H + 'ex:s1 ex:p """\nfirst\n""" ; ex:q ex:o1 .\n'),
    ("multi-line-string", H + 'ex:s1 ex:p\n"""first\nsecond"""\n.\n'),
    ("multi-line-string", H + "ex:s1 ex:p '''first\nsecond''' .\n"),
    ("multi-line-string", H + "ex:s1 ex:p '''first\nex:s2 ex:p ex:o2 .\nlast''' .\n"),
    ("long-string-on-one-line", H + 'ex:s1 ex:p """ab""" .\n'),
    ("single-quoted-string", H + "ex:s1 ex:p 'ab' .\n"),
    ("single-quoted-string", H + "ex:s1 ex:p 'a b' .\n"),
    ("no-blank-before-punctuation", H + "ex:s1 ex:p ex:o1.\n"),
    ("no-blank-before-punctuation", H + "ex:s1 ex:p ex:o1.\nex:s2 ex:p ex:o2.\n"),
    ("no-blank-before-punctuation", H + "ex:s1 ex:p ex:o1;\n  ex:q ex:o2.\n"),
    ("no-blank-before-punctuation", H + "ex:s1 ex:p ex:o1,ex:o2 .\n"),
    ("no-blank-before-punctuation", H + "ex:s1 ex:p ex:o1, ex:o2 .\n"),
    ("no-blank-before-punctuation", H + 'ex:s1 ex:p "x".\n'),
    ("no-blank-before-punctuation", H + 'ex:s1 ex:p "1"^^xsd:integer.\n'),
    ("no-blank-before-punctuation", H + "ex:s1 ex:p 42.\n"),
    ("no-blank-before-punctuation", H + "ex:s1 ex:p <http://ex.org/o2>.\n"),
    ("statement-on-directive-line", H + "@prefix e3: <http://e3.org/> . e3:s ex:p ex:o1 .\n"),
    ("statement-on-directive-line", "@prefix ex: <http://ex.org/> . ex:s1 ex:p ex:o1 .\n"),
    ("sparql-style-directive", "PREFIX ex: <http://ex.org/>\nex:s1 ex:p ex:o1 .\n"),
    ("sparql-style-directive", H + "BASE <http://other.org/>\nex:s1 ex:p <x> .\n"),
    ("directive-without-blank-before-dot", "@prefix ex: <http://ex.org/>.\nex:s1 ex:p ex:o1 .\n"),
]


# ------------------------------------------------------------------------------------------------
# C07: @prefix / @base declared again in the middle of a document (the later declaration wins from there on)
# ------------------------------------------------------------------------------------------------
def _redecl_expand(term, prefixes, base):
    """Abstract node of a term text under the declarations in force (pure: independent of the reader)."""
    if term == "a":
        return ["IRI", RDF_TYPE]
    if term.startswith("<"):
        iri = term[1:-1]
        return ["IRI", iri if ":" in iri else base + iri]
    if term.startswith('"'):
        q = term.rfind('"')
        lex, tail = term[1:q], term[q + 1:]
        if tail.startswith("@"):
            return ["Literal", lex, RDF_LANGSTRING]
        if tail.startswith("^^<"):
            iri = tail[3:-1]
            return ["Literal", lex, iri if ":" in iri else base + iri]
        if tail.startswith("^^xsd:"):
            return ["Literal", lex, XSD + tail[6:]]
        return ["Literal", lex, XSD_STRING]
    if term.startswith("_:"):
        return ["BNode", term]
    label, local = term.split(":", 1)
    return ["IRI", prefixes[label] + local]


def redecl_statement_tokens(st):
    """st = [subject, [[predicate, [objects]], ...]] -> token texts."""
    toks = [st[0]]
    for i, (p, objs) in enumerate(st[1]):
        if i:
            toks.append(";")
        toks.append(p)
        for j, o in enumerate(objs):
            if j:
                toks.append(",")
            toks.append(o)
    toks.append(".")
    return toks


REDECL_LAYOUTS = ["one-statement-per-line", "break-after-punctuation", "one-token-per-line"]


def redecl_text(case):
    """case = {"parts": [[directive lines, statements], ...], "layout": one of REDECL_LAYOUTS}."""
    out = []
    for directives, statements in case["parts"]:
        out.extend(directives)
        for st in statements:
            toks = redecl_statement_tokens(st)
            if case["layout"] == "one-statement-per-line":
                out.append(" ".join(toks))
            elif case["layout"] == "one-token-per-line":
                out.extend(toks)
            else:
                line = ""
                for t in toks:
                    line += ("" if not line else " ") + t
                    if t in (";", ",", "."):
                        out.append(line)
                        line = "   "
    return "\n".join(out) + "\n"


_DIRECTIVE = re.compile(r"^@(prefix|base)\s+(?:(\S*):\s+)?<([^>]*)>\s+\.")


def redecl_expected(case):
    prefixes, base, rows = {}, None, []
    for directives, statements in case["parts"]:
        for d in directives:
            m = _DIRECTIVE.match(d)
            if m is None:
                continue                                     # a comment line
            if m.group(1) == "prefix":
                prefixes[m.group(2)] = m.group(3)
            else:
                base = m.group(3)
        for st in statements:
            s = _redecl_expand(st[0], prefixes, base)
            for (p, objs) in st[1]:
                pn = _redecl_expand(p, prefixes, base)[1]
                for o in objs:
                    n = _redecl_expand(o, prefixes, base)
                    rows.append(s + [pn] + (n + [None] if n[0] != "Literal" else n))
    return rows


_REL_DT = re.compile(r'"\^\^<[^:>]*>')


def has_relative_datatype(case):
    return any(_REL_DT.search(o) for _, sts in case["parts"] for st in sts for (_, objs) in st[1] for o in objs)


_COLON_LOCAL = re.compile(r"^[A-Za-z]*:[^:]*:")


def has_colon_in_local_name(case):
    for _, sts in case["parts"]:
        for st in sts:
            terms = [st[0]] + [p for p, _ in st[1]] + [o for _, objs in st[1] for o in objs]
            if any(_COLON_LOCAL.match(t) and not t.startswith("_:") for t in terms):
                return True
    return False


def redecl_category(case):
    if has_colon_in_local_name(case):
        return "colon-in-local-name"
    seen, cats = {}, set()
    for directives, _ in case["parts"]:
        for d in directives:
            m = _DIRECTIVE.match(d)
            if m is None:
                continue
            k = ("prefix", m.group(2)) if m.group(1) == "prefix" else ("base", None)
            if k in seen:
                cats.add(k[0])
            seen[k] = m.group(3)
    return "prefix-redeclared" if "prefix" in cats else "base-redeclared" if "base" in cats else "other"


def redecl_classify(case, outcome, exp_rows):
    """-> [(category, symptom class, description)] with category prefix-redeclared / base-redeclared."""
    cat = redecl_category(case)
    if outcome[0] == "hang":
        return [(cat, "hang", "hang")]
    if outcome[0] == "raise":
        return [(cat, "raise:" + outcome[1], "raise %s in %s: %s" % (outcome[1], outcome[2], outcome[3][:80]))]
    got = ttl_norm_rows(outcome[1])
    if got == exp_rows:
        return []
    if len(got) != len(exp_rows):
        return [(cat, "extra-triple" if len(got) > len(exp_rows) else "missing-triple",
                 "%d triples yielded, %d expected" % (len(got), len(exp_rows)))]
    for i, (g, e) in enumerate(zip(got, exp_rows)):
        d = _row_diff(g, e)
        if d:
            field, gv, ev = d[0]
            cls = {"content": "wrong-content", "datatype": "wrong-datatype"}.get(field, "wrong-node")
            if field == "datatype" and has_relative_datatype(case):
                cat = "relative-datatype-under-base"
            return [(cat, cls, "triple %d: %s %r instead of %r (the declaration in force at that point is not applied)" % (i + 1, field, gv, ev))]
    return [(cat, "wrong-node", "rows differ")]


def ttl_redeclaration_cases():
    """Documents that declare a prefix label (or the base) a second time with another namespace and use the same
    names before and after; a label declared again with the same namespace, three declarations in a row (a, b, a),
    a second label that is left alone, the empty prefix, a directive with a trailing comment; all in three layouts."""
    A, B = "http://a.example/", "http://b.example/ns#"
    full = [["ex:s1", [["ex:p", ["ex:o1", "ex:o2"]], ["a", ["ex:C"]], ["o:q", ['"x"', "o:v"]]]]]
    simple = [["ex:s1", [["ex:p", ["ex:o1"]]]]]
    two = [["ex:s1", [["ex:p", ["ex:o1"]]]], ["ex:s2", [["ex:p", ["ex:s1"]]]]]
    keep = "@prefix o: <http://other.example/> ."

    def pfx(label, ns, tail=""):
        return "@prefix %s: <%s> .%s" % (label, ns, tail)
    docs = [
        [[[pfx("ex", A), keep], simple], [[pfx("ex", B)], simple]],
        [[[pfx("ex", A), keep], full], [[pfx("ex", B)], full]],
        [[[pfx("ex", A), keep], two], [[pfx("ex", B)], two], [[pfx("ex", A)], two]],
        [[[pfx("ex", A), keep], full], [[pfx("ex", A)], full]],
        [[[pfx("ex", A), keep], full], [[pfx("o", B)], full]],
        [[[pfx("ex", A), keep], simple], [[pfx("ex", B, " # declared again")], simple]],
        [[[pfx("ex", A), keep], simple], [["# the label gets another namespace", pfx("ex", B)], simple]],
        [[[pfx("", A)], [[":s1", [[":p", [":o1", ":o2"]]]]]], [[pfx("", B)], [[":s1", [[":p", [":o1"]]]]]]],
        [[[pfx("ex", A), pfx("e2", A)], [["ex:s1", [["e2:p", ["ex:o1"]]]]]], [[pfx("e2", B)], [["ex:s1", [["e2:p", ["e2:o1", "ex:o1"]]]]]]],
        [[[pfx("ex", A), keep], [["_:b1", [["ex:p", ["ex:o1", "_:b1"]]]]]], [[pfx("ex", B)], [["_:b1", [["ex:p", ["ex:o1"]]]]]]],
    ]
    B1, B2 = "http://b1.example/x/", "http://b2.example/y/"
    rel = [["<r1>", [["<rp>", ["<r2>", "<http://abs.example/o>"]], ["ex:p", ['"x"']]]]]
    docs += [
        [[[pfx("ex", A), "@base <%s> ." % B1], rel], [["@base <%s> ." % B2], rel]],
        [[[pfx("ex", A), "@base <%s> ." % B1], rel], [["@base <%s> ." % B2], rel], [["@base <%s> ." % B1], rel]],
        [[[pfx("ex", A), "@base <%s> ." % B1], rel], [["@base <%s> ." % B2, pfx("ex", B)], rel]],
        [[[pfx("ex", A), "@base <%s> ." % B1], rel], [["@base <%s> ." % B1], rel]],
    ]
    for parts in docs + relative_datatype_documents()[0]:
        for layout in REDECL_LAYOUTS:
            yield {"parts": parts, "layout": layout, "family": "redeclaration"}


def ttl_colon_local_cases():
    """Prefixed names whose local part holds ':' (valid PN_LOCAL: ex:item:42, voc:part:of) as subject, predicate and
    object, with neighbours that differ after the second colon only (ex:item:42 / ex:item:43 / ex:item),
    in three layouts.  (Not in the family, because the unchanged reader already fails on them -- str.replace expands EVERY
    occurrence of '<label>:' in the token -- and reported to the coordinator instead: a local part that repeats the label,
    ex:apex:1 -> <http://ex.org/aphttp://ex.org/1>, and the empty prefix, :a:b -> <http://default.org/ahttp://default.org/b>.)"""
    head = ["@prefix ex: <http://ex.org/> .", "@prefix voc: <http://voc.org/ns#> .", "@prefix : <http://default.org/> ."]
    docs = [
        [[head, [["ex:item:42", [["voc:part:of", ["ex:item:43"]]]]]]],
        [[head, [["ex:item:42", [["voc:part:of", ["ex:item:43", "ex:item"]], ["a", ["voc:kind:a"]]]],
                 ["ex:item:43", [["voc:part:of", ["ex:item:42"]], ["voc:part", ['"x"']]]],
                 ["ex:item", [["voc:part:of:too", ["ex:item:42:1"]]]]]]],
        [[head, [["<http://ex.org/s1>", [["voc:part:of", ["ex:2024:10:05", "ex:item:42"]]]], ["_:b1", [["ex:p", ["ex:item:42"]]]]]]],
    ]
    for parts in docs:
        for layout in REDECL_LAYOUTS:
            yield {"parts": parts, "layout": layout, "family": "colon-in-local-name"}


def relative_datatype_documents():
    """-> (documents with a relative datatype IRI under two @base declarations, sequences of single-base documents
    to be read one after the other in ONE process: base 1, base 2, base 1 again -- whatever an earlier document left
    behind in the process, one of them meets a stale expansion)."""
    A = "http://a.example/"
    B1, B2 = "http://b1.example/x/", "http://b2.example/y/"
    lits = [["ex:s1", [["ex:p", ['"20"^^<celsius>', '"x"', '"hi"@en', '"1"^^xsd:int', '"w"^^<http://ex.org/dt/foo>']]]]]
    one = [["ex:s1", [["ex:p", ['"20"^^<celsius>']]]]]
    head = "@prefix ex: <%s> ." % A
    xsd = "@prefix xsd: <%s> ." % XSD

    def base(b):
        return "@base <%s> ." % b
    two_bases = [
        [[[head, base(B1)], one], [[base(B2)], one]],
        [[[head, xsd, base(B1)], lits], [[base(B2)], lits]],
        [[[head, xsd, base(B1)], lits], [[base(B2)], lits], [[base(B1)], one]],
        [[[head, base(B1)], [["<r1>", [["<rp>", ['"20"^^<celsius>', "<r2>"]]]]]], [[base(B2)], [["<r1>", [["<rp>", ['"20"^^<celsius>']]]]]]],
    ]
    sequences = []
    for sts in (one, lits):
        sequences.append([[[[head, xsd, base(b)], sts]] for b in (B1, B2, B1)])
    return two_bases, sequences


def ttl_sequence_cases():
    """[{"docs": [case, case, case], "layout": ...}]: documents read one after the other by one process."""
    for seq in relative_datatype_documents()[1]:
        for layout in REDECL_LAYOUTS:
            yield {"docs": [{"parts": parts, "layout": layout} for parts in seq], "family": "sequence"}


# ------------------------------------------------------------------------------------------------
# C07: trailing comments whose '#' follows a TAB, a TAB and a blank, or several blanks
# ------------------------------------------------------------------------------------------------
TAB_COMMENT_SEPS = ["\t# note\n", "\t # note\n", "   # note\n", "\t\t# a note with words ex:x , 7 .\n", " \t# note ;\n"]


def ttl_tab_comment_cases():
    """Documents of 2-3 statements (prefixed names, <IRI>s, a blank node, integers and one well-behaved literal in
    mid-line); one trailing comment, separated from the last token of its line by a TAB / TAB+blank / several blanks,
    after every token that is followed by more of the document (so at least the rest of a statement or another
    statement comes after the commented line); the other line breaks either nowhere else or after every punctuation."""
    docs = [
        [["ex:s1", [["ex:p", ["ex:o1"]]], False], [":s2", [[":q", [":o3"]]], False]],
        [["ex:s1", [["ex:p", ["ex:o1", "42"]], ["a", [":o3"]]], False], ["_:b1", [["ex:p", ["<http://ex.org/o2>"]]], False]],
        [["<http://ex.org/s1>", [["<http://ex.org/p>", ["<http://ex.org/o2>", "_:b2"]]], False],
         ["<http://ex.org/s1>", [["<http://ex.org/p>", ["-7"]]], False], ["ex:s1", [["a", ["ex:o1"]]], False]],
        [["ex:s1", [["ex:p", ['"x"', "ex:o1"]]], False], ["ex:s1", [[":q", ['"w"^^<http://ex.org/dt/foo>']]], False]],
    ]
    for groups in docs:
        toks, _ = ttl_tokens(groups)
        for style in ("one-line", "break-after-punctuation"):
            for i in range(len(toks) - 1):
                for csep in TAB_COMMENT_SEPS:
                    seps = []
                    for j, (text, kind, fl) in enumerate(toks):
                        if j == i:
                            seps.append(csep)
                        elif j == len(toks) - 1 or (text == "." and style == "one-line"):
                            seps.append("\n")
                        elif kind == "punct" and style == "break-after-punctuation":
                            seps.append("\n  ")
                        else:
                            seps.append(" ")
                    yield {"groups": groups, "seps": seps, "base": False, "lead": "", "family": "tab-before-comment"}


def ttl_tab_comment_twin(case):
    """The same document with its comment after one blank (the layout the reader documents)."""
    twin = dict(case)
    twin["seps"] = [" # note\n" if "#" in x else x for x in case["seps"]]
    return twin
