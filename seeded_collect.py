#!/usr/bin/env python
"""Copies the confirmed seeded changes from the scratch area into /verif/seeded/<id>/changeN/ (patch.diff, demo.py, notes.md, meta.json) and
prints the table of DESIGN.md section 15.  usage: seeded_collect.py <scratch-dir> <results-dir> [<results-dir> ...]   (later result dirs win)"""
import sys, os, json, re, shutil, glob, subprocess
HERE = os.path.dirname(os.path.abspath(__file__))
scratch = sys.argv[1]; resdirs = sys.argv[2:]
head = subprocess.run("git -C /repo rev-parse --short HEAD", shell=True, capture_output=True, text=True).stdout.strip()
rows = []
for d in sorted(glob.glob(os.path.join(scratch, "C??", "change*"))):
    pid = os.path.basename(os.path.dirname(d)); ch = os.path.basename(d)
    if not os.path.exists(os.path.join(d, "patch.diff")): continue
    res = None
    for rd in resdirs:
        p = os.path.join(rd, "%s_%s.json" % (pid, ch))
        if os.path.exists(p) and os.path.getsize(p) > 0:
            try: res = json.load(open(p))
            except Exception: pass
    if res is None or not res.get("confirmed"):
        print("skip %s/%s: %s" % (pid, ch, "no result" if res is None else "not confirmed"), file=sys.stderr); continue
    notes = open(os.path.join(d, "notes.md")).read() if os.path.exists(os.path.join(d, "notes.md")) else ""
    def section(pat):
        m = re.search(r"^##+ [^\n]*(%s)[^\n]*\n(.*?)(?=^##+ |\Z)" % pat, notes, re.M | re.S | re.I)
        return m.group(2).strip() if m else ""
    title = notes.strip().splitlines()[0].lstrip("# ").strip() if notes.strip() else ""
    files = sorted(set(re.findall(r"^\+\+\+ b/(\S+)", open(os.path.join(d, "patch.diff")).read(), re.M)))
    caught = sorted(p for p, c in res["checks"].items() if c["exit"] == 1)
    how = {}
    for p, c in res["checks"].items():
        v = [l for l in c["lines"] if l.startswith("VIOLATION")]
        kinds = set()
        for l in v:
            kinds.add("bounded" if "/b_" in l else ("deductive (regression, no input)" if "no-failing-input-found" in l else "deductive (refuted)"))
        if c["exit"] == 1 and not kinds: kinds.add("violation reported (the captured lines hold only the known-finding lines that precede it)")
        how[p] = {"exit": c["exit"], "seconds": c["seconds"], "kinds": sorted(kinds), "first_lines": c["lines"][:3], "detail": c.get("detail", [])[:2]}
    meta = {"property": pid, "change": ch, "title": title, "files_touched": files,
            "breaks": section("clause|breaks|broken")[:1500],
            "needs_in_order_to_manifest": section("needs|trigger")[:1500],
            "origin": "written by a fresh sub-agent that was given only the text of the property and a scratch git worktree of /repo (nothing from /verif)",
            "confirmed_by_me": {"tree": "scratch worktree of /repo at %s, removed afterwards" % head,
                                "patch_applies": res["patch_applies"], "demo_exit_on_clean_tree": res["demo_clean_exit"],
                                "demo_exit_on_changed_tree": res["demo_changed_exit"], "demo_output_tail_on_changed_tree": res.get("demo_changed_tail", "")[-300:],
                                "baseline_tests_missing_with_the_change": res["baseline_missing"],
                                "ran": ["git -C /repo worktree add <wt> HEAD", "cd <wt> && /venv/bin/python <change>/demo.py   (clean: exit 0)",
                                        "git -C <wt> apply <change>/patch.diff", "cd <wt> && /venv/bin/python <change>/demo.py   (changed: exit != 0)",
                                        "cd <wt> && /venv/bin/python -m pytest -q -p no:cacheprovider --timeout=900 --continue-on-collection-errors --junitxml=...  (all 182 baseline tests pass)",
                                        "cd /verif && VERIF_REPO=<wt> ./check <id> --tier quick", "git -C /repo worktree remove --force <wt>"]},
            "checks": how, "caught_by": caught}
    dst = os.path.join(HERE, "seeded", pid, ch)
    os.makedirs(dst, exist_ok=True)
    for f in ("patch.diff", "demo.py", "notes.md"):
        if os.path.exists(os.path.join(d, f)): shutil.copy(os.path.join(d, f), os.path.join(dst, f))
    json.dump(meta, open(os.path.join(dst, "meta.json"), "w"), indent=1)
    rows.append((pid, ch, title, files, how, caught))
print("| change | what it edits | own check | other checks run | how it is caught |")
print("|---|---|---|---|---|")
for pid, ch, title, files, how, caught in rows:
    own = how.get(pid, {})
    others = "; ".join("%s: exit %s" % (p, h["exit"]) for p, h in how.items() if p != pid) or "-"
    kinds = "; ".join("%s: %s" % (p, ", ".join(h["kinds"])) for p, h in how.items() if h["kinds"]) or "MISSED"
    print("| %s/%s | %s | exit %s (%ss) | %s | %s |" % (pid, ch, ", ".join(os.path.basename(f) for f in files)[:70], own.get("exit"), own.get("seconds"), others, kinds))
