#!/usr/bin/env python
"""Runs the repository's pinned baseline (guard off) and compares with /root/.vp/BASELINE.json stable_pass."""
import json, subprocess, sys, xml.etree.ElementTree as ET, tempfile, os
base = json.load(open("/root/.vp/BASELINE.json"))
out = tempfile.mktemp(suffix=".xml")
subprocess.run("cd /repo && /venv/bin/python -m pytest -ra -q -p no:cacheprovider --timeout=900 --continue-on-collection-errors --junitxml=%s >/dev/null 2>&1" % out, shell=True)
passed = set()
for tc in ET.parse(out).getroot().iter("testcase"):
    if not list(tc): passed.add("%s::%s" % (tc.get("classname"), tc.get("name")))
os.remove(out)
missing = [t for t in base["stable_pass"] if t not in passed]
print("baseline: %d/%d stable tests pass" % (len(base["stable_pass"]) - len(missing), len(base["stable_pass"])))
for m in missing: print("  NOT PASSING:", m)
sys.exit(1 if missing else 0)
