#!/bin/sh
# Builds /verif/.venv offline: python 3.12 (same as /venv) + solvers/contract tools from the wheelhouse,
# with a .pth that makes /venv's site-packages (rdflib, editable shexer, pytest) visible.
set -e
cd "$(dirname "$0")"
if [ -x .venv/bin/python ] && .venv/bin/python -c 'import z3, cvc5, jsonschema, rdflib, shexer' 2>/dev/null; then
  echo "setup: .venv already usable"; exit 0
fi
rm -rf .venv
/venv/bin/python -m venv .venv
PIP_NO_INDEX=1 .venv/bin/python -m pip install -q --no-index --find-links /opt/veriftools/wheels \
   z3-solver cvc5 crosshair-tool deal icontract jsonschema hypothesis
SP=$(.venv/bin/python -c 'import sysconfig; print(sysconfig.get_paths()["purelib"])')
echo "import site; site.addsitedir('/venv/lib/python3.12/site-packages')" > "$SP/zz_repo_venv.pth"
.venv/bin/python -c 'import z3, cvc5, jsonschema, rdflib, shexer; print("setup ok", z3.get_version_string(), shexer.__file__)'
