#!/usr/bin/env python
"""Writes MANIFEST.json from props.py (single source of truth)."""
import json, os, sys
sys.path.insert(0, os.path.dirname(os.path.abspath(__file__)))
import props as P
ids = ["C%02d" % i for i in range(1, 21)]
checks = []
for pid in ids:
    if pid not in P.PROPS or not P.PROPS[pid].get("contracts"): continue
    c = P.PROPS[pid]
    checks.append({
        "property_id": pid,
        "quick_cmd": "./check %s --tier quick" % pid,
        "thorough_cmd": "./check %s --tier thorough" % pid,
        "evidence_file": "evidence/%s.json" % pid,
        "replay_cmd_template": "./check %s --replay {path}" % pid,
        "engine": "pyvc",
        "level_claimed": {"category": c.get("level", "other"), "text": c["explanation"], "design_ref": c.get("design_ref", "DESIGN.md sections 6.%s, 13, 15" % pid)},
        "level_note": c.get("level_note", "Assumed: " + "; ".join(P.ENCODING_ASSUMPTIONS[:3]) + "; assumed contracts on callees listed in the evidence trusted_base."),
        "technique": c.get("technique", ("contract-based deductive verification of the real functions (pyvc: sidecar contracts, VCs generated from the AST every run, "
                                         "discharged by z3/cvc5, counterexamples replayed natively)"
                                         + ("; composition and third-party parts by bounded stand-ins / run-time monitors (%s), labelled bounded, never counted as proved"
                                            % ", ".join(c.get("bounded", [])) if c.get("bounded") else ""))),
    })
na = [{"property_id": pid, "reason": P.NOT_APPLICABLE.get(pid, "check not built yet in this session; not claimed")} for pid in ids if pid not in P.PROPS or not P.PROPS[pid].get("contracts")]
doc = {"version": 1, "setup_cmd": "./setup.sh",
       "hooks": {"guard": "SHEXER_VERIF", "enable": "no hooks: contracts are sidecar files under /verif/contracts, run-time monitors wrap functions in the checker's own process",
                 "baseline_off_cmd": "cd /repo && /venv/bin/python -m pytest -ra -q -p no:cacheprovider --timeout=900 --continue-on-collection-errors",
                 "source_commits": P.HOOK_COMMITS, "add_only": True},
       "engines": [{"name": "pyvc", "path": "pyvc/", "serves_properties": [c["property_id"] for c in checks],
                    "kind_free_text": "VC generator for a Python subset: re-reads real function bodies with ast on every run, symbolic execution against sidecar contracts (pre/post, loop invariants, frames, ghost state), SMT-LIB obligations discharged by z3 and cvc5; counterexamples replayed natively"}],
       "checks": checks, "not_applicable": na,
       "notes": "See DESIGN.md (sections 12-16 describe what was built). Bounded stand-ins and run-time monitors are labelled as such in each evidence file and never counted as proved. Exit codes: 0 held / 1 VIOLATION / 2 undecided (never a verdict) / 3 checker error. Known findings: known_findings.json. Confirmed seeded changes with their verdicts: seeded/<id>/changeN/meta.json."}
with open(os.path.join(os.path.dirname(os.path.abspath(__file__)), "MANIFEST.json"), "w") as f:
    json.dump(doc, f, indent=1)
print("MANIFEST.json: %d checks, %d not claimed" % (len(checks), len(na)))
