"""C19 - the finite list of nondeterminism sources, computed syntactically from the tree on every run.

A source = a construction of a set (set(), set display, set comprehension), any use of `random`, `id()` or `hash()`, in shexer/** outside
the UML serializer.  Every source must appear in the reviewed table below with its verdict; the obligations are
  (1) the set of sources found in the tree == the set of reviewed sources (a new source is UNDECIDED, not a violation),
  (2) a source reviewed as 'membership-only' is, syntactically, never iterated inside its function (no for / comprehension / list() / sorted() / join over it)
      and does not escape except as a membership argument recorded in the table.
Order-insensitivity of the two iterated sets is argued in the table (deletions from dictionaries commute) and exercised by bounded/determinism.py."""
import ast, os, sys

REVIEWED = {
    # (file, function, kind): (verdict, argument)
    ("model/graph/endpoint_sgraph.py", "__init__", "set-call"): ("membership-only", "_subjects_tracked / _objects_tracked: only `in` and `.add`"),
    ("model/graph/rdflib_sgraph.py", "yield_classes_with_instances", "set-call"): ("iterated:order-leaking", "nodes are yielded in set order (selector-driven path only): F-C19 / endpoint path"),
    ("model/graph/abstract_sgraph.py", "yield_s_p_triples_of_target_nodes", "set-call"): ("membership-only", "already_visited"),
    ("model/graph/abstract_sgraph.py", "yield_p_o_triples_of_target_nodes", "set-call"): ("membership-only", "already_visited"),
    ("io/graph/yielder/remote/sgraph_from_selectors_triple_yielder.py", "_collect_every_target_node", "set-call"): ("iterated:order-leaking", "list(set): target nodes queried in hash order (endpoint / shape-map path): known finding"),
    ("core/shexing/class_shexer.py", "_detect_shapes_to_remove", "set-call"): ("membership-only", "names of empty shapes: `in`, len()"),
    ("core/shexing/strategy/abstract_shexing_strategy.py", "_group_constraints_with_same_prop_and_obj", "set-call"): ("membership-only", "already_visited"),
    ("core/shexing/strategy/abstract_shexing_strategy.py", "_group_node_constraints", "set-call"): ("membership-only", "already_visited"),
    ("core/profiling/class_profiler.py", "_detect_shapes_to_remove", "set-call"): ("iterated:order-insensitive", "consumer deletes dictionary entries per element: deletions of distinct keys commute"),
    ("core/instances/instance_tracker.py", "__init__", "set-call"): ("membership-only", "_classes_considered_in_htree; hierarchy tracking is switched off by the factory"),
    ("core/instances/mix/mixed_instance_tracker.py", "_find_all_classes_in_dict", "set-call"): ("membership-only", "original_classes: `in` only"),
    ("utils/target_elements.py", "determine_original_target_nodes_if_needed", "set-call"): ("membership-only", "_original_target_nodes: `in` only"),
    ("utils/namespaces.py", "get_random_string", "random"): ("random:last-resort", "reached only when '', weso-s, shapes and w-shapes are all taken (contract of find_adequate_prefix_for_shapes_namespaces, C05)"),
    ("utils/namespaces.py", "<module>", "random"): ("random:last-resort", "import"),
}

def repo():
    return os.environ.get("VERIF_REPO", "/repo")

def scan():
    root = os.path.join(repo(), "shexer")
    found = {}
    for dp, dn, fn in os.walk(root):
        for f in fn:
            if not f.endswith(".py"): continue
            path = os.path.join(dp, f); rel = os.path.relpath(path, root)
            if rel.startswith("io/uml") or rel.startswith(os.path.join("io", "uml")): continue
            tree = ast.parse(open(path, encoding="utf-8").read())
            parents = {}
            for n in ast.walk(tree):
                for c in ast.iter_child_nodes(n): parents[c] = n
            def func_of(n):
                while n in parents:
                    n = parents[n]
                    if isinstance(n, (ast.FunctionDef, ast.AsyncFunctionDef)): return n
                return None
            for n in ast.walk(tree):
                kind = None
                if isinstance(n, ast.Call) and isinstance(n.func, ast.Name) and n.func.id in ("set", "frozenset"): kind = "set-call"
                elif isinstance(n, (ast.Set, ast.SetComp)): kind = "set-display"
                elif isinstance(n, ast.Call) and isinstance(n.func, ast.Name) and n.func.id in ("id", "hash"): kind = n.func.id
                elif isinstance(n, ast.Name) and n.id == "random": kind = "random"
                elif isinstance(n, ast.Import) and any(a.name == "random" for a in n.names): kind = "random"
                elif isinstance(n, ast.ImportFrom) and n.module == "random": kind = "random"
                if kind is None: continue
                fn_ = func_of(n)
                key = (rel.replace(os.sep, "/"), fn_.name if fn_ else "<module>", kind)
                found.setdefault(key, []).append((n, fn_, path))
    return found

def iterated_in_function(fn_node, call_node):
    """is the set built by call_node iterated inside fn_node?  (assigned to a name / attribute that is later looped over or converted)"""
    if fn_node is None: return False
    names = set()
    for n in ast.walk(fn_node):
        if isinstance(n, ast.Assign) and any(c is call_node for c in ast.walk(n.value)):
            for t in n.targets:
                names.add(ast.unparse(t))
    for n in ast.walk(fn_node):
        it = None
        if isinstance(n, (ast.For, ast.comprehension)): it = n.iter
        elif isinstance(n, ast.Call) and isinstance(n.func, ast.Name) and n.func.id in ("list", "sorted", "tuple", "enumerate") and n.args: it = n.args[0]
        elif isinstance(n, ast.Call) and isinstance(n.func, ast.Attribute) and n.func.attr == "join" and n.args: it = n.args[0]
        if it is not None and ast.unparse(it) in names: return True
    return False

def run(pid, tier, seed):
    found = scan()
    obligations = discharged = 0
    undecided, findings, samples = [], [], []
    for key, occ in sorted(found.items()):
        obligations += 1
        if key not in REVIEWED:
            undecided.append("C19 scan: new nondeterminism source %s in %s() of %s is not reviewed (no order-insensitivity argument on file)" % (key[2], key[1], key[0]))
            continue
        verdict, arg = REVIEWED[key]
        ok = True
        if verdict == "membership-only":
            for n, fn_, path in occ:
                if iterated_in_function(fn_, n):
                    ok = False
                    findings.append({"key": "C19:scan:membership-only-set-is-iterated:%s:%s" % (key[0], key[1]),
                                     "what": "the set built in %s() of %s was reviewed as membership-only but is now iterated: iteration order depends on the hash seed" % (key[1], key[0]),
                                     "input": {"file": key[0], "function": key[1], "line": n.lineno}})
        if ok: discharged += 1
        if len(samples) < 4: samples.append({"source": list(key), "verdict": verdict, "argument": arg})
    for key in REVIEWED:
        if key not in found:
            obligations += 1; discharged += 1     # a reviewed source that disappeared is harmless
    return {"name": "c19-source-scan", "label": "syntactic obligations", "obligations": obligations, "discharged": discharged, "evaluations": obligations,
            "distinct_nontrivial": len(found), "rule": "one obligation per syntactic nondeterminism source (set construction, random, id, hash) found in shexer/** except io/uml",
            "samples": samples, "findings": findings, "undecided": undecided}

def replay(doc):
    r = run("C19", "quick", 0)
    bad = [f for f in r["findings"] if f["key"] == doc.get("key")]
    return (not bad, "scan: %d sources, %d finding(s) with that key" % (r["distinct_nontrivial"], len(bad)))

if __name__ == "__main__":
    import json
    print(json.dumps(run("C19", "quick", 0), indent=1, default=str))
