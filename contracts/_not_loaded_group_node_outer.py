"""NOT LOADED (never imported by props.py): outer-loop contract of AbstractShexingStrategy._group_node_constraints.

Written against the statement (literal / rdf:type constraints pass through, the non-literal constraints of one property collapse to exactly one
constraint, nothing else appears) with the exact visited-set characterisation.  The three callees it relies on ARE verified
(contracts/grouping.py: _find_all_candidates_to_merge_swapped_constraints_at_node_level, _merge_swapped_constraints_at_node_level,
_find_and_merge_potentially_swapped_constraints).  With this outer-loop contract loaded, 175 of 258 obligations - among them trivial frame
obligations - time out in every solver configuration (a matching loop between the invariants; 13 minutes per run), so the loop stays with the
bounded pipeline monitor.  Kept here as a record of what was tried; to experiment: append this text to contracts/grouping.py.
"""
_TEXT = r"""
# ---- the outer loop of stage 2 ---------------------------------------------------------------------------------------------------------
PI = "self._instantiation_property_str"
def NODE(e): return "(%s._st_property != %s and %s)" % (e, PI, NODEK(e))
def MERGED(r): return "(fresh_obj(%s) or (%s._st_property != %s and %s))" % (r, r, PI, NODEK(r))      # quantifier-free: a new statement or a node constraint
PASS_THROUGH = "forall(Int, lambda j: implies(0 <= j and j < {upto} and not %s, exists(Int, lambda q: 0 <= q and q < len({res}) and at({res}, q) == at(%s, j))))" % (NODE("at(%s, j)" % CSL), CSL)
PROVENANCE = ("forall(Int, lambda q: implies(0 <= q and q < len({res}), %s or exists(Int, lambda j: 0 <= j and j < {upto} and at({res}, q) == at(%s, j))))"
              % (MERGED("at({res}, q)"), CSL))
NODE_COVERED = ("forall(Int, lambda j: implies(0 <= j and j < {upto} and %s, exists(Int, lambda q: 0 <= q and q < len({res}) and %s and at({res}, q)._st_property == at(%s, j)._st_property)))"
                % (NODE("at(%s, j)" % CSL), MERGED("at({res}, q)"), CSL))
ONE_MERGED_PER_PROP = ("forall(Int, Int, lambda a, b: implies(0 <= a and a < b and b < len({res}) and %s and %s, at({res}, a)._st_property != at({res}, b)._st_property))"
                       % (MERGED("at({res}, a)"), MERGED("at({res}, b)")))
MERGED_FROM_PREFIX = ("forall(Int, lambda q: implies(0 <= q and q < len({res}) and %s, exists(Int, lambda m: 0 <= m and m < {upto} and %s and at({res}, q)._st_property == at(%s, m)._st_property)))"
                      % (MERGED("at({res}, q)"), NODE("at(%s, m)" % CSL), CSL))
VISITED_NODE = ("forall(Int, lambda j: implies(%s and %s, (at(%s, j) in already_visited) == exists(Int, lambda m: 0 <= m and m < {upto} and %s and at(%s, m)._st_property == at(%s, j)._st_property)))"
                % (BOUND("j", CSL), NODE("at(%s, j)" % CSL), CSL, NODE("at(%s, m)" % CSL), CSL, CSL))
NODE_LOOP = [PASS_THROUGH, PROVENANCE, NODE_COVERED, ONE_MERGED_PER_PROP, MERGED_FROM_PREFIX]
contract(ASS + "._group_node_constraints", params={CSL: List(Statement)}, returns=List(Statement),
    requires=L_OK(CSL) + ["forall(Int, lambda j: implies(%s, not fresh_obj(at(%s, j))))" % (BOUND("j", CSL), CSL)],
    ensures=[x.format(res="result", upto="len(%s)" % CSL) for x in [PASS_THROUGH, PROVENANCE, NODE_COVERED, ONE_MERGED_PER_PROP]],
    raises=[], modifies=["alloc", "Statement._comments"],
    ghost={"__locals__": {"result": List(Statement), "already_visited": Set(Statement)}},
    loops={0: {"invariant": [x.format(res="result", upto="_i0") for x in NODE_LOOP] + [VISITED_NODE.format(upto="_i0")]}},
    props=["C02", "C12", "C03"],
    note="literal and rdf:type constraints pass through untouched; all non-literal constraints of one property collapse to exactly one constraint "
         "(a member or a new statement); nothing else appears (outer loop invariant with the exact visited set on node constraints)")

"""
