"""C11 - ShExC and SHACL state the same constraints.  Both serializers are specified against ONE reference table
(taken from the property statement): cardinality -> (min,max), statement type -> value restriction, direction -> path."""
from pyvc.api import *
from contracts import common
S = common.install()
Statement = S["Statement"]

RNode = Atom("RNode")
EV = Tup(RNode, RNode, RNode)
trace_events(EV)
SHS = "shexer.io.shacl.formater.shacl_serializer:ShaclSerializer"
RGraph = schema("RGraph", ["ext:rdflib.Graph"], {})
Shacl = schema("ShaclSerializer", [SHS], {"_g_shapes": RGraph, "_instantiation_property_str": Str, "_detect_minimal_iri": Bool})

specfun("uriref", [Str], RNode)
specfun("int_lit", [Int], RNode)
for n in ("type", "first", "rest", "nil"): extconst("rdflib.RDF." + n, RNode)
extconst("rdflib.XSD.integer", RNode); extconst("rdflib.XSD.string", RNode)
specfun("typed_lit", [Int, RNode], RNode)

SH = "http://www.w3.org/ns/shacl#"
contract("ext:rdflib.URIRef", params={"value": Str}, returns=RNode, ensures=["result == uriref(value)"], assume_only=True, verify=False,
         note="ASSUMED: rdflib.URIRef(s) denotes the IRI s")
contract("ext:rdflib.Literal", params={"value": Int, "datatype": RNode}, returns=RNode, ensures=["result == typed_lit(value, datatype)"],
         assume_only=True, verify=False, note="ASSUMED: rdflib.Literal(v, datatype=d) is the typed literal v^^d")
contract("ext:rdflib.BNode", params={}, returns=RNode, ensures=["result == bn(0)"], bnodes="1", assume_only=True, verify=False,
         note="ASSUMED: rdflib.BNode() returns a fresh blank node")
contract("ext:rdflib.Graph.add", params={"triple": EV}, emits=["(triple[0], triple[1], triple[2])"], assume_only=True, verify=False,
         self_type=RGraph, note="ASSUMED: Graph.add adds exactly that triple")

def sh(x): return "uriref('%s%s')" % (SH, x)
INT_LIT = "typed_lit({}, ext_xsd_integer)"

P = dict(props=["C11"], raises=[])
contract(SHS + "._add_triple", params={"s": RNode, "p": RNode, "o": RNode}, emits=["(s, p, o)"], **P)
contract(SHS + "._generate_bnode", params={}, returns=RNode, ensures=["result == bn(0)"], emits=[], bnodes="1", **P)

# reference table of the statement:  {k}->k..k, '+'->1.., '*'->none, '?'->..1, absent(1)->1..1
MIN = "ite(is_int(cardinality), some_int(card_val(cardinality)), ite(cardinality == '+', some_int(1), none_int()))"
contract(SHS + "._min_occurs_from_cardinality", params={"cardinality": Card}, returns=Opt(Int),
    ensures=["implies(is_int(cardinality), result == card_val(cardinality))", "implies(cardinality == '+', result == 1)",
             "implies(cardinality == '*' or cardinality == '?', result is None)"], **P)
contract(SHS + "._max_occurs_from_cardinality", params={"cardinality": Card}, returns=Opt(Int),
    ensures=["implies(is_int(cardinality), result == card_val(cardinality))", "implies(cardinality == '?', result == 1)",
             "implies(cardinality == '*' or cardinality == '+', result is None)"], **P)
contract(SHS + "._generate_r_literal", params={"value": Int, "l_type": Str}, returns=RNode,
    requires=["l_type == 'i'"], ensures=["result == typed_lit(value, ext_const('rdflib.XSD.integer'))"], **P)
contract(SHS + "._add_min_occurs", params={"r_constraint_node": RNode, "min_occurs": Int},
    emits=["(r_constraint_node, %s, typed_lit(min_occurs, ext_const('rdflib.XSD.integer')))" % sh("minCount")], **P)
contract(SHS + "._add_max_occurs", params={"r_constraint_node": RNode, "max_occurs": Int},
    emits=["(r_constraint_node, %s, typed_lit(max_occurs, ext_const('rdflib.XSD.integer')))" % sh("maxCount")], **P)
C = "statement._cardinality"
contract(SHS + "._add_cardinality", params={"statement": Statement, "r_constraint_node": RNode},
    emits=["(is_int(%s) or %s == '+', r_constraint_node, %s, typed_lit(ite(is_int(%s), card_val(%s), 1), ext_const('rdflib.XSD.integer')))" % (C, C, sh("minCount"), C, C),
           "(is_int(%s) or %s == '?', r_constraint_node, %s, typed_lit(ite(is_int(%s), card_val(%s), 1), ext_const('rdflib.XSD.integer')))" % (C, C, sh("maxCount"), C, C)],
    **P)
contract(SHS + "._add_exactly_one_cardinality", params={"r_constraint_node": RNode},
    emits=["(r_constraint_node, %s, typed_lit(1, ext_const('rdflib.XSD.integer')))" % sh("minCount"),
           "(r_constraint_node, %s, typed_lit(1, ext_const('rdflib.XSD.integer')))" % sh("maxCount")], **P)

# value restriction: IRI / BNode / NONLITERAL -> sh:nodeKind ; '%<...>' shape -> sh:node ; otherwise sh:dataType (sheXer's spelling)
T_ = "some(statement._st_type)"
IS_SHAPE = "%s.startswith('%%')" % T_
contract(SHS + "._generate_shape_uri", params={"shape_name": Str}, returns=RNode,
    raises=[("ValueError", "not (shape_name.startswith('%<') and shape_name.endswith('>'))")],
    ensures=["result == uriref(shape_name[2:-1])"], props=["C11", "C05"])
contract(SHS + "._add_node_type", params={"statement": Statement, "r_constraint_node": RNode},
    requires=["has_class(statement, 'Statement')", "%s != 'LITERAL' and %s != '.'" % (T_, T_),
              "implies(%s and %s != 'IRI' and %s != 'BNode' and %s != 'NONLITERAL', %s.startswith('%%<') and %s.endswith('>'))" % (IS_SHAPE, T_, T_, T_, T_, T_)],
    emits=["({t} == 'IRI', r_constraint_node, {nk}, {iri})".format(t=T_, nk=sh("nodeKind"), iri=sh("IRI")),
           "({t} == 'BNode', r_constraint_node, {nk}, {b})".format(t=T_, nk=sh("nodeKind"), b=sh("BlankNode")),
           "({t} == 'NONLITERAL', r_constraint_node, {nk}, {b})".format(t=T_, nk=sh("nodeKind"), b=sh("BlankNodeOrIRI")),
           "({s}, r_constraint_node, {n}, uriref({t}[2:-1]))".format(s=IS_SHAPE, t=T_, n=sh("node")),
           "(not ({s}) and {t} != 'IRI' and {t} != 'BNode' and {t} != 'NONLITERAL', r_constraint_node, {d}, uriref({t}))".format(s=IS_SHAPE, t=T_, d=sh("dataType"))],
    **P)
contract(SHS + "._generate_r_uri_for_str_uri", params={"property_str": Str}, returns=RNode,
    raises=[("ValueError", "not ((property_str.startswith('<') and property_str.endswith('>')) or property_str.startswith('http://') or property_str.startswith('https://'))")],
    ensures=["result == uriref(ite(property_str.startswith('<') and property_str.endswith('>'), property_str[1:-1], property_str))"],
    props=["C11"])
HTTP = "(statement._st_property.startswith('http://') or statement._st_property.startswith('https://'))"
PURI = "uriref(statement._st_property)"
contract(SHS + "._add_direct_path", params={"statement": Statement, "r_constraint_node": RNode}, requires=[HTTP],
    emits=["(r_constraint_node, %s, %s)" % (sh("path"), PURI)], **P)
contract(SHS + "._add_inverse_path", params={"statement": Statement, "r_constraint_node": RNode}, requires=[HTTP],
    emits=["(r_constraint_node, %s, bn(0))" % sh("property"), "(bn(0), %s, %s)" % (sh("inversePath"), PURI)], bnodes="1", **P)
contract(SHS + "._add_path", params={"statement": Statement, "r_constraint_node": RNode}, requires=[HTTP],
    emits=["(not statement._is_inverse, r_constraint_node, %s, %s)" % (sh("path"), PURI),
           "(statement._is_inverse, r_constraint_node, %s, bn(0))" % sh("property"),
           "(statement._is_inverse, bn(0), %s, %s)" % (sh("inversePath"), PURI)],
    bnodes="ite(statement._is_inverse, 1, 0)", **P)

# ---- ShExC side: the same table as text
CARD_TEXT = ("ite(is_int(statement._cardinality), ite(out_of_comment and card_val(statement._cardinality) == 1, '', '{' + str_from_int(card_val(statement._cardinality)) + '}'),"
             " ite(statement._cardinality == '+', '+', ite(statement._cardinality == '*', '*', '?')))")
contract(common.BASESER + ".cardinality_representation", params={"statement": Statement, "out_of_comment": Bool}, returns=Str,
    ensures=["result == " + CARD_TEXT], raises=[], props=["C11", "C01", "C13"],
    note="'{k}' for exact k (nothing for 1 on a constraint line), '+', '*', '?' - the text whose SHACL reading is the min/max table above")

# ---- canaries
contract(SHS + "._max_occurs_from_cardinality@canary", params={"cardinality": Card}, returns=Opt(Int),
    ensures=["implies(cardinality == '+', result == 1)"], props=["C11"], canary=True)

# ---- one property shape per triple constraint: composition of the pieces above (fresh nodes: bn(0), bn(1), ...) -------------
RTYPE = "ext_const('rdflib.RDF.type')"
contract(SHS + "._add_bnode_property", params={"r_shape_uri": RNode, "r_constraint_node": RNode},
    emits=["(r_shape_uri, %s, r_constraint_node)" % sh("property"), "(r_constraint_node, %s, %s)" % (RTYPE, sh("PropertyShape"))], **P)
NODE_TYPE_EMITS = [e.replace("r_constraint_node", "bn(0)") for e in CONTRACTS[SHS + "._add_node_type"].emits]
CARD_EMITS = [e.replace("r_constraint_node", "bn(0)") for e in CONTRACTS[SHS + "._add_cardinality"].emits]
PATH_EMITS = ["(not statement._is_inverse, bn(0), %s, %s)" % (sh("path"), PURI),
              "(statement._is_inverse, bn(0), %s, bn(1))" % sh("property"),
              "(statement._is_inverse, bn(1), %s, %s)" % (sh("inversePath"), PURI)]
contract(SHS + "._add_regular_constraint", params={"statement": Statement, "r_shape_uri": RNode},
    requires=CONTRACTS[SHS + "._add_node_type"].requires + [HTTP],
    emits=["(r_shape_uri, %s, bn(0))" % sh("property"), "(bn(0), %s, %s)" % (RTYPE, sh("PropertyShape"))] + NODE_TYPE_EMITS + CARD_EMITS + PATH_EMITS,
    bnodes="ite(statement._is_inverse, 2, 1)", **P)
contract(SHS + "._add_in_instance", params={"r_constraint_node": RNode, "statement": Statement},
    requires=["has_class(statement, 'Statement')", "%s.startswith('http://') or %s.startswith('https://')" % (T_, T_)],
    emits=["(r_constraint_node, %s, bn(0))" % sh("in"), "(bn(0), ext_const('rdflib.RDF.first'), uriref(%s))" % T_,
           "(bn(0), ext_const('rdflib.RDF.rest'), ext_const('rdflib.RDF.nil'))"], bnodes="1", **P)
contract(SHS + "._add_instantiation_constraint", params={"statement": Statement, "r_shape_uri": RNode},
    requires=["has_class(statement, 'Statement')", "%s.startswith('http://') or %s.startswith('https://')" % (T_, T_), HTTP],
    emits=["(r_shape_uri, %s, bn(0))" % sh("property"), "(bn(0), %s, %s)" % (RTYPE, sh("PropertyShape")),
           "(bn(0), %s, %s)" % (sh("path"), PURI)] + CARD_EMITS + [      # min/max from the statement's cardinality, like any other constraint
           "(bn(0), %s, bn(1))" % sh("in"), "(bn(1), ext_const('rdflib.RDF.first'), uriref(%s))" % T_,
           "(bn(1), ext_const('rdflib.RDF.rest'), ext_const('rdflib.RDF.nil'))"], bnodes="2", **P)
contract(SHS + "._add_shape_uri", params={"r_shape_uri": RNode}, emits=["(r_shape_uri, %s, %s)" % (RTYPE, sh("NodeShape"))], **P)
