"""C13 / C05 - a prefixed name is written for a shape label only when the part after the namespace is a plain local name (no '/' and no '#'):
otherwise `ex:shapes#Person` would start a comment and `weso:shapes/Person` is not a prefixed name at all."""
from pyvc.api import *

CAND = "ite(corners, target_uri[1:-1], target_uri)"
def GOOD(ns): return "({c}.startswith({n}) and '/' not in {c}[len({n}):] and '#' not in {c}[len({n}):])".format(c=CAND, n=ns)
contract("shexer.utils.uri:remove_corners", params={"a_uri": Str, "raise_error_if_no_corners": Bool}, returns=Str,
    ensures=["implies(a_uri.startswith('<') and a_uri.endswith('>'), result == a_uri[1:-1])"],
    raises=[("ValueError", "raise_error_if_no_corners and not (a_uri.startswith('<') and a_uri.endswith('>'))")], modifies=[], assume_only=True, verify=False,
    note="verified under C06 (contracts/c06_nt.py); restated here")
contract("shexer.utils.uri:prefixize_uri_if_possible", params={"target_uri": Str, "namespaces_prefix_dict": Dict(Str, Str), "corners": Bool}, returns=Str,
    requires=["implies(corners, target_uri.startswith('<') and target_uri.endswith('>') and len(target_uri) >= 2)"],
    ensures=["implies(forall(Str, lambda ns: implies(ns in namespaces_prefix_dict, not %s)), result == target_uri)" % GOOD("ns")],
    raises=[], modifies=[],
    loops={0: {"invariant": ["best_match is None", "candidate_uri == %s" % CAND,
                             "forall(Int, lambda t: implies(0 <= t and t < _i0, not %s))" % GOOD("_keys0[t]").replace(CAND, "candidate_uri")]}},
    ghost={"__locals__": {"best_match": Opt(Str)}}, props=["C13", "C05"],
    note="no namespace is chosen unless the rest of the IRI after it contains neither '/' nor '#'; with no such namespace the IRI is left as it is")
