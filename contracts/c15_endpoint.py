"""C15 - endpoint cache: per-node memoisation issues at most one query per (node, direction); caching never asks more than no caching.
The SPARQL client, the endpoint's semantics and rdflib are assumed; `__queries__` is a ghost counter of queries sent."""
from pyvc.api import *

ESG = "shexer.model.graph.endpoint_sgraph:EndpointSGraph"
NodeS = spectype("NodeS", Atom("NodeS"))
TripleS = Tup(NodeS, NodeS, NodeS)
Local = schema("LocalSgraph", ["ext:RdflibSgraph"], {})
End = schema("EndpointSGraph", [ESG], {"_store_locally": Bool, "_subjects_tracked": Opt(Set(NodeS)), "_objects_tracked": Opt(Set(NodeS)),
                                       "_local_sgraph": Opt(Local), "_endpoint_url": NodeS, "__queries__": Int})
Q = "self.__queries__"
REMOTE = dict(assume_only=True, verify=False, yields=TripleS, modifies=["EndpointSGraph.__queries__[self]"], ensures=["%s == old(%s) + 1" % (Q, Q)], raises=[],
              note="ASSUMED: one call of the remote generator sends exactly one SPARQL query (SPARQLWrapper/HTTP not modelled)")
contract(ESG + "._yield_remote_p_o_triples_of_an_s", params={"target_node": NodeS}, **REMOTE)
contract(ESG + "._yield_remote_s_p_triples_of_an_o", params={"target_node": NodeS}, **REMOTE)
contract(ESG + "._store_triple_locally", params={"a_triple": TripleS}, modifies=[], raises=[], assume_only=True, verify=False,
    note="ASSUMED: adds the triple to the local rdflib graph (content of the local graph is not modelled here)")
contract("ext:RdflibSgraph.yield_p_o_triples_of_an_s", params={"target_node": NodeS}, yields=TripleS, self_type=Local, modifies=[], raises=[], assume_only=True, verify=False,
    note="ASSUMED: rdflib lookup, sends no query")
contract("ext:RdflibSgraph.yield_s_p_triples_of_an_o", params={"target_node": NodeS}, yields=TripleS, self_type=Local, modifies=[], raises=[], assume_only=True, verify=False,
    note="ASSUMED: rdflib lookup, sends no query")
CACHE_ON = ["self._store_locally", "self._subjects_tracked is not None", "self._objects_tracked is not None", "self._local_sgraph is not None"]
def local(meth, mine, other):
    contract(ESG + "." + meth, params={"target_node": NodeS}, yields=TripleS, requires=CACHE_ON,
        ensures=["%s == old(%s) + ite(old(target_node in some(self.%s)), 0, 1)" % (Q, Q, mine),        # a node already fetched in this direction costs no query
                 "target_node in some(self.%s)" % mine,
                 "forall(NodeS, lambda n: implies(old(n in some(self.%s)), n in some(self.%s)))" % (mine, mine),
                 "same_except(some(self.%s), old(some(self.%s)), target_node)" % (mine, mine),
                 "self.%s == old(self.%s)" % (other, other)],
        raises=[], modifies=["EndpointSGraph.__queries__[self]", "EndpointSGraph.%s[self]" % mine],
        loops={0: {"invariant": ["%s == old(%s) + 1" % (Q, Q), "self.%s == old(self.%s)" % (mine, mine), "self.%s == old(self.%s)" % (other, other)]},
               1: {"invariant": ["%s == old(%s) + ite(old(target_node in some(self.%s)), 0, 1)" % (Q, Q, mine), "target_node in some(self.%s)" % mine,
                                 "same_except(some(self.%s), old(some(self.%s)), target_node)" % (mine, mine),
                                 "forall(NodeS, lambda n: implies(old(n in some(self.%s)), n in some(self.%s)))" % (mine, mine),
                                 "self.%s == old(self.%s)" % (other, other)]}},
        props=["C15"], note="memoisation: the first request for a node fetches and stores its neighbourhood (1 query), every later one is served locally (0 queries)")
local("_yield_local_p_o_triples_of_an_s", "_subjects_tracked", "_objects_tracked")
local("_yield_local_s_p_triples_of_an_o", "_objects_tracked", "_subjects_tracked")
for meth, loc, rem, mine in (("yield_p_o_triples_of_an_s", "_yield_local_p_o_triples_of_an_s", "_yield_remote_p_o_triples_of_an_s", "_subjects_tracked"),
                             ("yield_s_p_triples_of_an_o", "_yield_local_s_p_triples_of_an_o", "_yield_remote_s_p_triples_of_an_o", "_objects_tracked")):
    contract(ESG + "." + meth, params={"target_node": NodeS}, yields=TripleS,
        requires=["implies(self._store_locally, self._subjects_tracked is not None and self._objects_tracked is not None and self._local_sgraph is not None)"],
        ensures=["implies(not self._store_locally, %s == old(%s) + 1)" % (Q, Q),                       # no cache: always one query
                 "implies(self._store_locally, %s == old(%s) + ite(old(target_node in some(self.%s)), 0, 1))" % (Q, Q, mine),
                 "%s <= old(%s) + 1" % (Q, Q)],                                                          # caching never sends more queries than no caching
        raises=[], modifies=["EndpointSGraph.__queries__[self]", "EndpointSGraph.%s[self]" % mine],
        loops={0: {"invariant": ["%s == old(%s) + 1" % (Q, Q), "self.%s == old(self.%s)" % (mine, mine)]},
               1: {"invariant": ["%s == old(%s) + ite(old(target_node in some(self.%s)), 0, 1)" % (Q, Q, mine)]}},
        props=["C15"], note="query-count lemma: cached <= uncached per request; a repeated request costs nothing with the cache")

# ---- decoding of a SPARQL JSON result cell into the term syntax the local parsers produce ------------------------------------------------
contract("shexer.io.sparql.query:_add_corners_if_needed", params={"target_elem": Str, "elem_type": Str}, returns=Str,
    ensures=["implies(elem_type == 'uri' and not target_elem.startswith('<'), result == '<' + target_elem + '>')",
             "implies(elem_type != 'uri' or target_elem.startswith('<'), result == target_elem)"],
    raises=[], props=["C15"],
    note="every cell the endpoint types as IRI - whatever its scheme (http, urn, mailto, tel ...) - is delivered in <...> form, so the remote graph "
         "classifies it as IRI exactly like the local parser; other cells are passed through untouched")

contract("shexer.utils.uri:add_corners_if_it_is_an_uri", params={"a_candidate_uri": Str}, returns=Str,
    ensures=["result == ite(a_candidate_uri.startswith('http://') or a_candidate_uri.startswith('https://'), '<' + a_candidate_uri + '>', a_candidate_uri)"],
    raises=[], props=["C15"],
    note="only a cell that starts with a URL scheme separator is taken for an IRI on the endpoint path: a string such as 'httpd 2.4' stays a literal")
