"""C05 - well-formed and closed schemas: shape labels and the prefix chosen for the shapes namespace."""
from pyvc.api import *

SH = "shexer.utils.shapes"
LOCAL = "result[len('%<' + shapes_namespace):-1]"
BASE_PRE = ["len(class_uri) >= 1", "not class_uri.startswith('@')", "'<' not in class_uri and '>' not in class_uri",      # a plain class IRI
            "not class_uri.endswith('#')"]
FORM = ["result.startswith('%<' + shapes_namespace) and result.endswith('>') and len(result) >= len(shapes_namespace) + 3",
        "class_uri.endswith(%s)" % LOCAL]                                                   # the label's local part is a suffix of the class IRI
LAST_SEGMENT = ["'/' not in %s and '#' not in %s" % (LOCAL, LOCAL),                        # ... holding no separator: it is the LAST segment
                "implies(len(%s) < len(class_uri), str_at(class_uri, len(class_uri) - len(%s) - 1) == '/' or str_at(class_uri, len(class_uri) - len(%s) - 1) == '#')" % (LOCAL, LOCAL, LOCAL)]
contract(SH + ":build_shapes_name_for_class_uri", params={"class_uri": Str, "shapes_namespace": Str}, returns=Str,
    requires=BASE_PRE, ensures=FORM[:1], raises=[], props=["C05"],
    note="label = '%<' + shapes namespace + something + '>' for every plain class IRI (never raises)")
contract(SH + ":build_shapes_name_for_class_uri@slash", params={"class_uri": Str, "shapes_namespace": Str}, returns=Str,
    requires=BASE_PRE + ["'#' not in class_uri", "not class_uri.endswith('/')"], ensures=FORM + LAST_SEGMENT, raises=[], props=["C05"],
    note="slash namespaces (no fragment): the suffix is exactly the last path segment, hence labels are injective on distinct local names")
# hash namespaces (fragment identifiers): two nested rfind searches; the string solvers time out on those paths, so the "last segment"
# clauses for that form are left to the bounded stand-in (schemas.py, C05) - recorded in DESIGN.md.

NSQ = "shexer.utils.namespaces"
contract("shexer.utils.namespaces:get_random_string", params={"length": Int}, returns=Str, assume_only=True, verify=False,
    note="ASSUMED: returns some string (random.choice); only reached when all four default prefixes are taken")
TAKEN = lambda p: "exists(Str, lambda k: k in current_namespace_prefix_dict and current_namespace_prefix_dict[k] == %s)" % p
contract(NSQ + ":find_adequate_prefix_for_shapes_namespaces", params={"current_namespace_prefix_dict": Dict(Str, Str)}, returns=Str,
    ensures=["not " + TAKEN("result"),                                                          # functional prefix map: never a prefix the user already uses
             "implies(not %s, result == '')" % TAKEN("''"),
             "implies(%s and not %s, result == 'weso-s')" % (TAKEN("''"), TAKEN("'weso-s'")),
             "implies(%s and %s and not %s, result == 'shapes')" % (TAKEN("''"), TAKEN("'weso-s'"), TAKEN("'shapes'")),
             "implies(%s and %s and %s and not %s, result == 'w-shapes')" % (TAKEN("''"), TAKEN("'weso-s'"), TAKEN("'shapes'"), TAKEN("'w-shapes'"))],
    raises=[], loops={1: {"invariant": []}}, props=["C05", "C19"],
    note="the shapes prefix is the first free one of '', weso-s, shapes, w-shapes (deterministic: C19); a random one only if all four are taken; "
         "termination of the random retry loop is not proved")
