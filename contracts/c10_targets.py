"""C10 - class names accepted in three spellings (full IRI, <IRI>, prefixed name) denote the same class: the tuning step maps every
requested name to the full IRI without corners, element by element, as a function of the name AND of the prefix table it is given."""
from pyvc.api import *

specfun("unprefixed", [Str, Dict(Str, Str)], Str)      # unprefixize_uri_if_possible(include_corners=False): its own text is string rewriting (monitor)
contract("shexer.utils.uri:unprefixize_uri_if_possible",
    params={"target_uri": Str, "prefix_namespaces_dict": Dict(Str, Str), "include_corners": Bool}, returns=Str,
    ensures=["implies(not include_corners, result == unprefixed(target_uri, prefix_namespaces_dict))"], raises=[], modifies=[], assume_only=True, verify=False,
    note="ASSUMED: a pure function of the name and the prefix table")
contract("shexer.utils.uri:remove_corners", params={"a_uri": Str, "raise_error_if_no_corners": Bool}, returns=Str,
    ensures=["implies(a_uri.startswith('<') and a_uri.endswith('>'), result == a_uri[1:-1])"],
    raises=[("ValueError", "raise_error_if_no_corners and not (a_uri.startswith('<') and a_uri.endswith('>'))")], modifies=[], assume_only=True, verify=False,
    note="verified under C06 (contracts/c06_nt.py); restated here")
ONE = "ite(list_target_classes[j].startswith('<'), list_target_classes[j][1:-1], unprefixed(list_target_classes[j], prefix_namespaces_dict))"
contract("shexer.utils.target_elements:tune_target_classes_if_needed",
    params={"list_target_classes": List(Str), "prefix_namespaces_dict": Dict(Str, Str)}, returns=List(Str),
    requires=["forall(Int, lambda j: implies(0 <= j and j < len(list_target_classes) and list_target_classes[j].startswith('<'), list_target_classes[j].endswith('>')))"],
    ensures=["len(result) == len(list_target_classes)",
             "forall(Int, lambda j: implies(0 <= j and j < len(result), result[j] == %s))" % ONE],
    raises=[], modifies=[],
    loops={0: {"invariant": ["len(result) == _i0", "forall(Int, lambda j: implies(0 <= j and j < _i0, result[j] == %s))" % ONE]}},
    ghost={"__locals__": {"result": List(Str)}}, props=["C10", "C02"],
    note="one output per requested class, in order: <IRI> loses its corners, anything else is expanded with THIS call's prefix table (no state survives the call)")

