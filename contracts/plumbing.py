"""Option plumbing of Shaper: every option reaches the stage that implements it, under its own name and unchanged.

Each `Shaper._build_*` method hands ~30 keyword arguments to a factory.  The factory is given an ASSUMED contract that returns its argument
tuple unchanged (an observation device: `result[i] == <i-th parameter>`, read from the real signature incl. defaults every run); the
builder is VERIFIED against the table below: parameter p receives `self._p` unless the table names another source.  The table entries that
carry a property are commented; the rest is the identity rule.  (Frames and shapes are taken from the code, the expectations from the
statements.)"""
import ast
from pyvc.api import *
from pyvc import extract as X
from contracts.c20_config import SH, FIELDS, PARAM_T, O, ShaperT

def _const_type(node):
    if isinstance(node, ast.Constant):
        v = node.value
        if v is None: return O
        if isinstance(v, bool): return Bool
        if isinstance(v, int): return Int
        if isinstance(v, float): return Real
        if isinstance(v, str): return Str
    if isinstance(node, ast.UnaryOp) and isinstance(node.operand, ast.Constant): return Int
    if isinstance(node, ast.Name): return Str          # module constants of shexer.consts used as defaults are strings
    return O

def _const_spec(node):
    if isinstance(node, ast.Constant): return repr(node.value)
    if isinstance(node, ast.UnaryOp) and isinstance(node.op, ast.USub): return "-%r" % node.operand.value
    return None        # a named constant: compared with the callee's own default by not passing it

def plumb(method, factory, table, props, note):
    """table: parameter of the factory -> spec expression over self (None = must NOT be passed: the factory default applies)"""
    m, c, fnode = X.find_function(factory)
    names, defaults, vararg, static = X.signature(fnode)
    types = {}
    expect = {}
    for p in names:
        src = table.get(p, "self._" + p) if p in table or ("_" + p) in FIELDS else None
        if src is not None and src.startswith("self._") and src[5:] in FIELDS:
            types[p] = FIELDS[src[5:]]
        elif p in defaults: types[p] = _const_type(defaults[p])
        else: types[p] = O
        if p in TYPE_OVERRIDE.get(factory, {}): types[p] = TYPE_OVERRIDE[factory][p]
        expect[p] = src
    tup = Tup(*[types[p] for p in names])
    contract(factory, params=dict(types), returns=tup, ensures=["result[%d] == %s" % (i, p) for i, p in enumerate(names)], raises=[], modifies=[],
             assume_only=True, verify=False, note="observation device: returns its own argument tuple (the stage it builds is verified elsewhere)")
    ens = []
    for i, p in enumerate(names):
        if expect[p] is not None:
            ens.append("result[%d] == %s" % (i, expect[p]))
        elif p in defaults and _const_spec(defaults[p]) is not None:
            ens.append("result[%d] == %s" % (i, _const_spec(defaults[p])))
        elif p in defaults and isinstance(defaults[p], ast.Name):
            ens.append("result[%d] == ext_default_%s" % (i, p)) if False else None
    contract(SH + "." + method, params=METHOD_PARAMS.get(method, {}), returns=tup, ensures=[e for e in ens if e], raises=[], modifies=[], props=props, note=note)

TYPE_OVERRIDE = {}
METHOD_PARAMS = {"_build_shapes_serializer": {"target_file": O, "string_return": Bool, "output_format": Str}}
FIELDS.setdefault("_class_counts", Opt(Int)); FIELDS.setdefault("_profile", Opt(Int)); FIELDS.setdefault("_class_min_iris", Opt(Int))
FIELDS.setdefault("_shape_list", Opt(Int))
for f_, t_ in FIELDS.items(): SCHEMAS["Shaper"].fields.setdefault(f_, t_)

F = "shexer.utils.factories."
plumb("_build_instance_tracker", F + "instance_tracker_factory:get_instance_tracker",
      {"namespaces_to_ignore": None,            # C16: class membership is read from the FULL graph - the ignore list must not reach the instance tracker
       "url_input": "self._url_graph_input", "infer_numeric_types_for_untyped_literals": "self._infer_numeric_types_for_untyped_literals"},
      props=["C16", "C10", "C15"],
      note="instance tracking receives every source / target / cap option under its own name; namespaces_to_ignore is withheld (C16)")
plumb("_build_class_profiler", F + "class_profiler_factory:get_class_profiler",
      {"target_classes_dict": "self._target_classes_dict", "source_file": "self._graph_file_input", "list_of_source_files": "self._graph_list_of_files_input",
       "instantiation_property_str": "self._instantiation_property", "url_input": "self._url_graph_input"},
      props=["C16", "C01", "C15"],
      note="profiling receives the ignore list (C16: restriction applies to the profiled features only), the sources, caps and direction switches")
plumb("_build_class_shexer", F + "class_shexer_factory:get_class_shexer",
      {"class_counts": "self._class_counts", "class_profile_dict": "self._profile", "original_target_classes": "self._target_classes",
       "original_shape_map": "self._built_shape_map", "all_compliant_mode": "self._all_compliant_mode",
       "discard_useless_constraints_with_positive_closure": "self._discard_useles_constraints_with_positive_closure",
       "class_min_iris": "self._class_min_iris"},
      props=["C13", "C03"],
      note="every inference switch reaches the shexer under its own name (C13: a switch changes only what it documents - none is crossed with another)")
plumb("_build_shapes_serializer", F + "shape_serializer_factory:get_shape_serializer",
      {"output_format": "output_format", "shapes_list": "self._shape_list", "target_file": "target_file", "string_return": "string_return",
       "shape_features_examples": "self._class_min_iris"},
      props=["C13", "C18"],
      note="presentation options reach the serializer under their own name; sink and format are the CALL's arguments, not stored state (C18)")
