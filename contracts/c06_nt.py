"""C06 - the N-Triples reader: string contracts on the tokenizer helpers and termination of the scanner.
Lexical classes are SMT regular expressions; obligations are discharged per path by cvc5 (strings)."""
from pyvc.api import *

URI = "shexer.utils.uri"
NTY = "shexer.io.graph.yielder.nt_triples_yielder:NtTriplesYielder"
NtY = schema("NtYielder", [NTY], {"_allow_untyped_numbers": Bool, "_error_triples": Int, "_triples_count": Int})

# a literal token: '"' body '"' suffix, where the suffix (language tag or ^^<datatype>) holds no quote
contract(URI + ":there_is_arroba_after_last_quotes", params={"target_str": Str}, returns=Bool,
    ghost={"body": Str, "suffix": Str},
    requires=["target_str == '\"' + body + '\"' + suffix", "'\"' not in suffix"],
    ensures=["result == suffix.startswith('@')"], raises=[], props=["C06", "C08"],
    note="a token is language-tagged iff the character right after its last quote is '@' - whatever the lexical form or a datatype IRI contains")
contract(URI + ":there_is_arroba_after_last_quotes@canary", params={"target_str": Str}, returns=Bool,
    ghost={"body": Str, "suffix": Str}, requires=["target_str == '\"' + body + '\"' + suffix", "'\"' not in suffix"],
    ensures=["result == ('@' in suffix)"], props=["C06"], canary=True, note="wrong: a datatype IRI may contain '@'")
contract(URI + ":remove_corners", params={"a_uri": Str, "raise_error_if_no_corners": Bool}, returns=Str,
    ensures=["implies(a_uri.startswith('<') and a_uri.endswith('>'), '<' + result + '>' == a_uri or len(a_uri) < 2)",
             "implies(not (a_uri.startswith('<') and a_uri.endswith('>')), result == a_uri)"],
    raises=[("ValueError", "raise_error_if_no_corners and not (a_uri.startswith('<') and a_uri.endswith('>'))")], props=["C06", "C10"],
    note="<iri> -> iri (exactly the text between the corners)")
contract(URI + ":add_corners", params={"a_uri": Str}, returns=Str, ensures=["result == '<' + a_uri + '>'"], raises=[], props=["C06"])

NOBLANK = "(' ' not in {0} and '\\t' not in {0})"
contract(NTY + "._look_for_last_index_of_unspaced_token", params={"target_str": Str, "first_index": Int}, returns=Int,
    requires=["0 <= first_index and first_index < len(target_str)", NOBLANK.format("target_str[first_index:first_index + 1]")],
    ensures=["first_index <= result and result < len(target_str)",                          # the cursor always advances (termination of the scanner)
             NOBLANK.format("target_str[first_index:result + 1]"),                         # the token holds no blank
             "result == len(target_str) - 1 or str_at(target_str, result + 1) == ' ' or str_at(target_str, result + 1) == '\\t'"
             " or (result == len(target_str) - 2 and str_at(target_str, result + 1) == '.')"],   # and is maximal (up to the statement's final dot)
    raises=[], loops={0: {"invariant": ["first_index <= index and index <= len(target_str)", NOBLANK.format("target_str[first_index:index]")],
                          "decreases": "len(target_str) - index"}},
    props=["C06", "C04", "C01"], note="end of a blank-node / number / tagged or typed literal token; terminates, never moves backwards")
contract(NTY + "._look_for_last_index_of_uri_token", params={"target_str": Str, "first_index": Int}, returns=Int,
    requires=["0 <= first_index and first_index < len(target_str)", "str_at(target_str, first_index) == '<'"],
    ensures=["first_index <= result and result < len(target_str)",
             "implies('>' in target_str[first_index:], str_at(target_str, result) == '>' and '>' not in target_str[first_index:result])"],
    raises=[], props=["C06", "C04"], note="index of the first '>' after the '<' (the IRI token), else the end of the line")
for nm in ("_look_for_last_index_of_bnode_token", "_look_for_last_index_of_unlabelled_number_token"):
    contract(NTY + "." + nm, params={"target_str": Str, "first_index": Int}, returns=Int,
        requires=["0 <= first_index and first_index < len(target_str)", NOBLANK.format("target_str[first_index:first_index + 1]")],
        ensures=["first_index <= result and result < len(target_str)", NOBLANK.format("target_str[first_index:result + 1]")], raises=[], props=["C06"])
contract(NTY + "._look_for_last_index_of_literal_token", params={"target_str": Str, "first_index": Int}, returns=Int,
    requires=["0 <= first_index and first_index < len(target_str)", "str_at(target_str, first_index) == '\"'"],
    ensures=["first_index <= result and result < len(target_str)"], raises=[], assume_only=True, verify=False, props=["C06"],
    note="ASSUMED here (character loop over escapes): the token end lies inside the line and not before its start; exercised by bounded/readers.py")
contract(NTY + "._look_for_tokens", params={"str_line": Str}, returns=List(Str),
    ensures=["forall(Int, lambda j: implies(0 <= j and j < len(result), len(result[j]) >= 1))"], raises=[],
    loops={0: {"invariant": ["0 <= current_first_index and current_first_index <= len(str_line)",
                             "forall(Int, lambda j: implies(0 <= j and j < len(result), len(result[j]) >= 1))"],
               "decreases": "len(str_line) - current_first_index"}},
    ghost={"__locals__": {"result": List(Str)}}, props=["C06", "C04"],
    note="the scanner terminates on EVERY line (measure: characters left) and every token is non-empty; token ends come from the contracts above")

# ---- lines handed to the tokenizer when the graph arrives as a raw string (C06, C08) -----------------------------------------------------
import z3 as _z3
RSL = "shexer.io.line_reader.raw_string_line_reader:RawStringLineReader"
RawLines = schema("RawLines", [RSL], {"_raw_string": Str}, register=False)
regex("ascii_blank", _z3.Star(_z3.Union(_z3.Re(" "), _z3.Re("\t"), _z3.Re("\n"), _z3.Re("\r"))))
StrList = spectype("StrList", List(Str))
specfun("n_nonblank", [StrList, Int], Int,
        axioms=["forall(StrList, lambda L: n_nonblank(L, 0) == 0)",
                "forall(StrList, Int, lambda L, i: implies(i >= 0, n_nonblank(L, i + 1) == n_nonblank(L, i) + ite(in_re(L[i], 'ascii_blank'), 0, 1)))"])
PARTS = "py_split(self._raw_string, '\\n')"
contract(RSL + ".read_lines", params={}, yields=Str, self_type=RawLines,
    ensures=["len(result) == n_nonblank(%s, len(%s))" % (PARTS, PARTS),
             "forall(Int, lambda k: implies(0 <= k and k < len(%s) and not in_re(%s[k], 'ascii_blank'), result[n_nonblank(%s, k)] == %s[k]))" % ((PARTS,) * 4)],
    raises=[], modifies=[],
    loops={0: {"invariant": ["_seq0 == %s" % PARTS, "len(__yielded__) == n_nonblank(%s, _i0)" % PARTS,
                             "forall(Int, lambda k: implies(0 <= k and k < _i0 and not in_re(%s[k], 'ascii_blank'), __yielded__[n_nonblank(%s, k)] == %s[k]))" % ((PARTS,) * 3),
                             "forall(Int, lambda k: implies(0 <= k and k < _i0, 0 <= n_nonblank(%s, k) and n_nonblank(%s, k) <= n_nonblank(%s, k + 1) and n_nonblank(%s, k + 1) <= n_nonblank(%s, _i0)))" % ((PARTS,) * 5)]}},
    axioms_of=["n_nonblank"], props=["C06", "C08", "C01", "C02", "C03", "C07", "C09", "C10", "C12", "C13", "C14"],
    note="the statements delivered from a raw string are exactly the non-blank pieces between LINE FEED characters, in order: no other character "
         "(U+2028, U+0085, FF, VT ... all legal inside an N-Triples/Turtle literal) ends a line, nothing is dropped, merged or reordered")
