"""Pass 2 (per node: (property, kind) -> occurrences; per class: (property, kind, cardinality) -> #instances).
C01 (every figure exact), C14 (inverse twin), C09 (additivity), C05 (shape kinds only for tracked nodes)."""
from pyvc.api import *
from contracts.instances import Name, ANode, Triple, SUBJ_NODE, OBJ_NODE, IS_PROP

AFDS = "shexer.core.profiling.strategy.abstract_feature_direction_strategy:AbstractFeatureDirectionStrategy"
DFS = "shexer.core.profiling.strategy.direct_features_strategy:DirectFeaturesStrategy"
IRFS = "shexer.core.profiling.strategy.include_reverse_features_strategy:IncludeReverseFeaturesStrategy"
CPQ = "shexer.core.profiling.class_profiler:ClassProfiler"

Feat = Dict(Name, Dict(Name, Int))                      # property -> kind -> occurrences
IEntry = Tup(List(Name), Feat)                          # (classes, direct features)           [direct strategy]
IBox = box("IBox", Dict(Name, IEntry))
Prof = Dict(Name, Dict(Name, Dict(Card, Int)))          # property -> kind -> cardinality -> #instances
CBox = box("CBox", Dict(Name, Prof))
CountBox = box("CountBox", Dict(Name, Int))
Profiler = schema("Profiler", [CPQ], {"_instantiation_property_str": Name, "_shapes_namespace": Name, "_relevant_triples": Int})
Strat = schema("Strat", [DFS], {"_class_profiler": Profiler, "_i_dict": IBox, "_c_shapes_dict": CBox, "_c_counts": CountBox,
                                "_shape_names_dict": Dict(Name, Name)})
spectype("Strat", Strat)
specfun("shape_name_of", [Name], Name)                  # build_shapes_name_for_class_uri (its text properties: C05)
PI = "self._class_profiler._instantiation_property_str"
ID = "unboxed(self._i_dict)"

contract(AFDS + "._get_shape_name_for_a_class", params={"a_class": Name}, returns=Name, self_type=Strat,
    ensures=["result == shape_name_of(a_class)", "result.startswith('%')"], raises=[], assume_only=True, verify=False,
    note="memo table _shape_names_dict abstracted: it is written and read only through this function; label text is C05's subject")
ELEM_KEY = "ite(has_class({0}, 'IRI') or has_class({0}, 'Literal') or has_class({0}, 'Property'), {0}._content, {0}._identifier)"
contract(AFDS + "._decide_type_elem", params={"original_elem": ANode, "str_prop": Name}, returns=Name, self_type=Strat,
    requires=["not has_class(original_elem, 'Property')", "implies(str_prop == %s, has_class(original_elem, 'IRI') or has_class(original_elem, 'BNode'))" % PI],
    ensures=["implies(str_prop != %s, result == ite(has_class(original_elem, 'IRI'), 'IRI', ite(has_class(original_elem, 'BNode'), 'BNode', original_elem._elem_type)))" % PI,
             "implies(str_prop == %s, result == %s)" % (PI, ELEM_KEY.format("original_elem"))],
    raises=[], props=["C01", "C10"],
    note="rdf:type is an ordinary property when another instantiation property is configured; for the instantiation property the kind is the class value itself")
contract(AFDS + "._decide_shapes_elem", params={"str_elem": Name}, returns=List(Name), self_type=Strat,
    ensures=["implies(str_elem not in %s, len(result) == 0)" % ID,
             "implies(str_elem in %s, len(result) == len(%s[str_elem][0]) and forall(Int, lambda j: implies(0 <= j and j < len(result), result[j] == shape_name_of(%s[str_elem][0][j]))))" % (ID, ID, ID)],
    raises=[], props=["C01", "C05"], note="shape kinds are produced only for nodes present in the instance dictionary (C05 closure), one per class of the node")

# ---- one relevant triple (s, p, o): counters of s for property p -------------------------------------------------------------------
SK = ELEM_KEY.format("a_triple[0]")
PK = "a_triple[1]._content"
FE = "%s[%s][1]" % (ID, SK)
def get0(d, p, k): return "ite(%s in %s and %s in %s[%s], %s[%s][%s], 0)" % (p, d, k, d, p, d, p, k)
contract(AFDS + "._introduce_needed_elements_in_shape_instances_dict_for_subj",
    params={"str_subj": Name, "str_prop": Name, "type_obj": Name, "obj_shapes": List(Name)}, self_type=Strat,
    requires=["str_subj in %s" % ID],
    ensures=["str_subj in %s" % ID, "str_prop in %s[str_subj][1]" % ID, "type_obj in %s[str_subj][1][str_prop]" % ID,
             "forall(Int, lambda j: implies(0 <= j and j < len(obj_shapes), obj_shapes[j] in %s[str_subj][1][str_prop]))" % ID,
             # values: existing counters kept, new counters start at 0, nothing else appears
             "forall(Name, lambda k: %s == old(%s))" % (get0("%s[str_subj][1]" % ID, "str_prop", "k"), get0("%s[str_subj][1]" % ID, "str_prop", "k")),
             "forall(Name, lambda k: (k in %s[str_subj][1][str_prop]) == (old(str_prop in %s[str_subj][1] and k in %s[str_subj][1][str_prop]) or k == type_obj or exists(Int, lambda j: 0 <= j and j < len(obj_shapes) and obj_shapes[j] == k)))" % (ID, ID, ID),
             "same_except(%s[str_subj][1], old(%s[str_subj][1]), str_prop)" % (ID, ID),
             "%s[str_subj][0] == old(%s[str_subj][0])" % (ID, ID),
             "same_except(%s, old(%s), str_subj)" % (ID, ID)],
    raises=[], modifies=["IBox.val[self._i_dict]"],
    loops={0: {"invariant": ["str_subj in %s" % ID, "str_prop in %s[str_subj][1]" % ID, "type_obj in %s[str_subj][1][str_prop]" % ID,
                             "forall(Int, lambda j: implies(0 <= j and j < _i0, obj_shapes[j] in %s[str_subj][1][str_prop]))" % ID,
                             "forall(Name, lambda k: %s == old(%s))" % (get0("%s[str_subj][1]" % ID, "str_prop", "k"), get0("%s[str_subj][1]" % ID, "str_prop", "k")),
                             "forall(Name, lambda k: (k in %s[str_subj][1][str_prop]) == (old(str_prop in %s[str_subj][1] and k in %s[str_subj][1][str_prop]) or k == type_obj or exists(Int, lambda j: 0 <= j and j < _i0 and obj_shapes[j] == k)))" % (ID, ID, ID),
                             "same_except(%s[str_subj][1], old(%s[str_subj][1]), str_prop)" % (ID, ID),
                             "%s[str_subj][0] == old(%s[str_subj][0])" % (ID, ID),
                             "same_except(%s, old(%s), str_subj)" % (ID, ID)]}},
    props=["C01"], note="creates missing counters with value 0 and changes no existing number")

OK_ = ELEM_KEY.format("a_triple[2]")
TYPE_O = ("ite(%s != %s, ite(has_class(a_triple[2], 'IRI'), 'IRI', ite(has_class(a_triple[2], 'BNode'), 'BNode', a_triple[2]._elem_type)), %s)" % (PK, PI, OK_))
NONLIT_O = "((%s == 'IRI' or %s == 'BNode') and %s in %s)" % (TYPE_O, TYPE_O, OK_, ID)
OCLS = "%s[%s][0]" % (ID, OK_)
IS_SHAPE_OF_O = "(%s and exists(Int, lambda j: 0 <= j and j < len(%s) and shape_name_of(%s[j]) == k))" % (NONLIT_O, OCLS, OCLS)
F_NEW = "%s[%s][1]" % (ID, SK)
F_OLD = "old(%s[%s][1])" % (ID, SK)
STEP2_PRE = [IS_PROP, SUBJ_NODE, "not has_class(a_triple[2], 'Property')", "%s in %s" % (SK, ID),
             "implies(has_class(a_triple[2], 'Literal'), a_triple[2]._elem_type != 'IRI' and a_triple[2]._elem_type != 'BNode')",   # a datatype IRI is never the macro name
             "implies(%s == %s, (has_class(a_triple[2], 'IRI') or has_class(a_triple[2], 'BNode')) and %s != 'IRI' and %s != 'BNode')" % (PK, PI, OK_, OK_),
             # duplicate-free graph + distinct local names: the shape names of one node's classes are pairwise distinct
             "implies(%s in %s, forall(Int, Int, lambda j1, j2: implies(0 <= j1 and j1 < j2 and j2 < len(%s), shape_name_of(%s[j1]) != shape_name_of(%s[j2]))))" % (OK_, ID, OCLS, OCLS, OCLS),
             "forall(Name, lambda c: shape_name_of(c).startswith('%') and shape_name_of(c) != 'IRI' and shape_name_of(c) != 'BNode')",
             "forall(Name, Name, lambda x, p_: implies(x in %s, forall(Name, lambda k: implies(p_ in %s[x][1] and k in %s[x][1][p_], %s[x][1][p_][k] >= 0))))" % (ID, ID, ID, ID)]
COUNT_STEP = ("forall(Name, lambda k: %s == old(%s) + ite(k == %s, 1, 0) + ite(%s, 1, 0))"
              % (get0(F_NEW, PK, "k"), get0("%s[%s][1]" % (ID, SK), PK, "k"), TYPE_O, IS_SHAPE_OF_O.replace("%s[" % ID, "old(%s)[" % ID) if False else IS_SHAPE_OF_O))
contract(AFDS + "._annotate_target_subject", params={"a_triple": Triple}, self_type=Strat,
    requires=STEP2_PRE,
    ensures=[COUNT_STEP,
             "forall(Name, lambda k: (%s in %s and k in %s[%s]) == (%s > 0))" % (PK, F_NEW, F_NEW, PK, get0(F_NEW, PK, "k")) if False else "True",
             "same_except(%s, %s, %s)" % (F_NEW, F_OLD, PK),                 # other properties of the subject untouched
             "%s[%s][0] == old(%s[%s][0])" % (ID, SK, ID, SK),               # its classes untouched
             "same_except(%s, old(%s), %s)" % (ID, ID, SK)],                 # every other node untouched
    raises=[], modifies=["IBox.val[self._i_dict]"],
    loops={0: {"invariant": [
        "%s in %s" % (SK, ID), "str_prop in %s" % F_NEW, "type_obj in %s[str_prop]" % F_NEW,
        "forall(Int, lambda j: implies(0 <= j and j < len(obj_shapes), obj_shapes[j] in %s[str_prop]))" % F_NEW,
        "forall(Name, lambda k: %s == old(%s) + ite(k == type_obj, 1, 0) + ite(exists(Int, lambda j: 0 <= j and j < _i0 and obj_shapes[j] == k), 1, 0))"
        % (get0(F_NEW, "str_prop", "k"), get0("%s[%s][1]" % (ID, SK), PK, "k")),
        "same_except(%s, %s, str_prop)" % (F_NEW, F_OLD), "%s[%s][0] == old(%s[%s][0])" % (ID, SK, ID, SK), "same_except(%s, old(%s), %s)" % (ID, ID, SK)]}},
    props=["C01", "C09", "C14"],
    note="counting step of pass 2: exactly the kind of the object and the shapes of its classes gain one occurrence for (subject, property); nothing else changes")

# ---- class level: (property, kind, cardinality) -> number of instances -----------------------------------------------------------------
CD = "unboxed(self._c_shapes_dict)"
F3 = Tup(Name, Name, Card)
contract(AFDS + "._infer_valid_cardinalities", params={"a_property": Name, "a_cardinality": Int}, yields=Card, self_type=Strat,
    requires=["a_cardinality >= 1"],
    ensures=["implies(a_property == %s, len(result) == 1 and result[0] == card_int(1))" % PI,
             "implies(a_property != %s, len(result) == 2 and result[0] == card_int(a_cardinality) and result[1] == '+')" % PI],
    raises=[], props=["C01", "C03"],
    note="'+' is always offered next to the exact cardinality (C03); for the instantiation property only cardinality 1 exists")
def getc(d, p, k, c): return "ite(%s in %s and %s in %s[%s] and %s in %s[%s][%s], %s[%s][%s][%s], 0)" % (p, d, k, d, p, c, d, p, k, d, p, k, c)
CE = "%s[a_class]" % CD
contract(AFDS + "._introduce_needed_elements_in_shape_classes_dict", params={"a_class": Name, "a_feature_3tuple": F3}, self_type=Strat,
    requires=["a_class in %s" % CD],
    ensures=["a_class in %s" % CD, "a_feature_3tuple[0] in %s" % CE, "a_feature_3tuple[1] in %s[a_feature_3tuple[0]]" % CE,
             "a_feature_3tuple[2] in %s[a_feature_3tuple[0]][a_feature_3tuple[1]]" % CE,
             "forall(Name, Name, Card, lambda p, k, c: %s == old(%s))" % (getc(CE, "p", "k", "c"), getc(CE, "p", "k", "c")),
             "same_except(%s, old(%s), a_class)" % (CD, CD)],
    raises=[], modifies=["CBox.val[self._c_shapes_dict]"], props=["C01"], note="creates missing counters with value 0 and changes no existing number")
contract(AFDS + "._annotate_direct_instance_features_for_class", params={"a_class": Name, "features_3tuple": List(F3)}, self_type=Strat,
    requires=["a_class in %s" % CD,
              "forall(Int, Int, lambda i, j: implies(0 <= i and i < j and j < len(features_3tuple), features_3tuple[i] != features_3tuple[j]))"],   # one entry per (p, kind, cardinality)
    ensures=["a_class in %s" % CD,
             "forall(Name, Name, Card, lambda p, k, c: %s == old(%s) + ite(exists(Int, lambda j: 0 <= j and j < len(features_3tuple) and features_3tuple[j][0] == p and features_3tuple[j][1] == k and features_3tuple[j][2] == c), 1, 0))"
             % (getc(CE, "p", "k", "c"), getc(CE, "p", "k", "c")),
             "same_except(%s, old(%s), a_class)" % (CD, CD)],
    raises=[], modifies=["CBox.val[self._c_shapes_dict]"],
    loops={0: {"invariant": ["a_class in %s" % CD,
        "forall(Name, Name, Card, lambda p, k, c: %s == old(%s) + ite(exists(Int, lambda j: 0 <= j and j < _i0 and features_3tuple[j][0] == p and features_3tuple[j][1] == k and features_3tuple[j][2] == c), 1, 0))"
        % (getc(CE, "p", "k", "c"), getc(CE, "p", "k", "c")),
        "same_except(%s, old(%s), a_class)" % (CD, CD)]}},
    props=["C01", "C09"],
    note="one instance contributes exactly 1 to every (property, kind, cardinality) it exhibits in this class and to nothing else")

# ---- inverse direction (C14): the twin of the counting step, on (object, property) with the kind of the SUBJECT ----------------------
IEntry2 = Tup(List(Name), Feat, Feat)                    # (classes, direct features, inverse features)   [inverse strategy]
IBox2 = box("IBox2", Dict(Name, IEntry2))
Strat2 = schema("Strat2", [IRFS], {"_class_profiler": Profiler, "_i_dict": IBox2, "_shape_names_dict": Dict(Name, Name)})
ID2 = "unboxed(self._i_dict)"
contract(AFDS + "._get_shape_name_for_a_class@inv", params={"a_class": Name}, verify=False)
CONTRACTS[IRFS + "._get_shape_name_for_a_class"] = CONTRACTS[AFDS + "._get_shape_name_for_a_class"]
OKEY2 = ELEM_KEY.format("a_triple[2]")
SKEY2 = ELEM_KEY.format("a_triple[0]")
TYPE_S = ("ite(%s != %s, ite(has_class(a_triple[0], 'IRI'), 'IRI', 'BNode'), %s)" % (PK, PI, SKEY2))
# by design only IRI subjects get shape kinds in the inverse direction (blank-node subjects are classified by kind only)
SCLS = "%s[%s][0]" % (ID2, SKEY2)
IS_SHAPE_OF_S = "(%s == 'IRI' and %s in %s and exists(Int, lambda j: 0 <= j and j < len(%s) and shape_name_of(%s[j]) == k))" % (TYPE_S, SKEY2, ID2, SCLS, SCLS)
G_NEW = "%s[%s][2]" % (ID2, OKEY2)
G_OLD = "old(%s[%s][2])" % (ID2, OKEY2)
contract(IRFS + "._decide_type_elem", params={"original_elem": ANode, "str_prop": Name}, returns=Name, self_type=Strat2,
    requires=CONTRACTS[AFDS + "._decide_type_elem"].requires, ensures=CONTRACTS[AFDS + "._decide_type_elem"].ensures, raises=[], verify=False, assume_only=True,
    note="same function as in the direct strategy (verified there)")
contract(IRFS + "._decide_shapes_elem", params={"str_elem": Name}, returns=List(Name), self_type=Strat2,
    ensures=[e.replace(ID, ID2) for e in CONTRACTS[AFDS + "._decide_shapes_elem"].ensures], raises=[], props=["C14"],
    note="the inherited function verified against the 3-component instance entries of the inverse strategy")
contract(IRFS + "._introduce_needed_elements_in_shape_instances_dict_for_obj",
    params={"str_obj": Name, "str_prop": Name, "type_subj": Name, "subj_shapes": List(Name)}, self_type=Strat2,
    requires=["str_obj in %s" % ID2],
    ensures=[e.replace(ID, ID2).replace("str_subj", "str_obj").replace("type_obj", "type_subj").replace("obj_shapes", "subj_shapes").replace("][1]", "][2]")
             for e in CONTRACTS[AFDS + "._introduce_needed_elements_in_shape_instances_dict_for_subj"].ensures
             if "][0] ==" not in e] + ["%s[str_obj][0] == old(%s[str_obj][0])" % (ID2, ID2), "%s[str_obj][1] == old(%s[str_obj][1])" % (ID2, ID2)],
    raises=[], modifies=["IBox2.val[self._i_dict]"],
    loops={0: {"invariant": [e.replace(ID, ID2).replace("str_subj", "str_obj").replace("type_obj", "type_subj").replace("obj_shapes", "subj_shapes").replace("][1]", "][2]")
                             for e in CONTRACTS[AFDS + "._introduce_needed_elements_in_shape_instances_dict_for_subj"].loops[0]["invariant"] if "][0] ==" not in e]
                            + ["%s[str_obj][0] == old(%s[str_obj][0])" % (ID2, ID2), "%s[str_obj][1] == old(%s[str_obj][1])" % (ID2, ID2)]}},
    props=["C14"], note="twin of the direct helper: same clause text with the inverse component")
contract(IRFS + "._annotate_target_object", params={"a_triple": Triple}, self_type=Strat2,
    requires=[IS_PROP, SUBJ_NODE, OBJ_NODE, "%s in %s" % (OKEY2, ID2),
              "implies(%s == %s, %s != 'IRI' and %s != 'BNode')" % (PK, PI, SKEY2, SKEY2),
              "implies(%s in %s, forall(Int, Int, lambda j1, j2: implies(0 <= j1 and j1 < j2 and j2 < len(%s), shape_name_of(%s[j1]) != shape_name_of(%s[j2]))))" % (SKEY2, ID2, SCLS, SCLS, SCLS),
              "forall(Name, lambda c: shape_name_of(c).startswith('%') and shape_name_of(c) != 'IRI' and shape_name_of(c) != 'BNode')"],
    ensures=["forall(Name, lambda k: %s == old(%s) + ite(k == %s, 1, 0) + ite(%s, 1, 0))" % (get0(G_NEW, PK, "k"), get0("%s[%s][2]" % (ID2, OKEY2), PK, "k"), TYPE_S, IS_SHAPE_OF_S),
             "same_except(%s, %s, %s)" % (G_NEW, G_OLD, PK),
             "%s[%s][0] == old(%s[%s][0])" % (ID2, OKEY2, ID2, OKEY2),           # classes of the object untouched
             "%s[%s][1] == old(%s[%s][1])" % (ID2, OKEY2, ID2, OKEY2),           # its OUTGOING features untouched (C14: direct part unchanged)
             "same_except(%s, old(%s), %s)" % (ID2, ID2, OKEY2), "%s in %s" % (OKEY2, ID2)],
    raises=[], modifies=["IBox2.val[self._i_dict]"],
    loops={0: {"invariant": [
        "%s in %s" % (OKEY2, ID2), "str_prop in %s" % G_NEW, "type_subj in %s[str_prop]" % G_NEW,
        "forall(Int, lambda j: implies(0 <= j and j < len(subj_shapes), subj_shapes[j] in %s[str_prop]))" % G_NEW,
        "forall(Name, lambda k: %s == old(%s) + ite(k == type_subj, 1, 0) + ite(exists(Int, lambda j: 0 <= j and j < _i0 and subj_shapes[j] == k), 1, 0))"
        % (get0(G_NEW, "str_prop", "k"), get0("%s[%s][2]" % (ID2, OKEY2), PK, "k")),
        "same_except(%s, %s, str_prop)" % (G_NEW, G_OLD), "%s[%s][0] == old(%s[%s][0])" % (ID2, OKEY2, ID2, OKEY2),
        "%s[%s][1] == old(%s[%s][1])" % (ID2, OKEY2, ID2, OKEY2), "same_except(%s, old(%s), %s)" % (ID2, ID2, OKEY2)]}},
    props=["C14", "C01"],
    note="inverse counting step = the direct step on the reversed triple (kind of the subject; shape kinds only for IRI subjects, by design); the object's outgoing features are not touched")

# ---- C09: the counting step commutes (statement order is irrelevant for every counter) ------------------------------------------------
def step_rel(DN, DO, T):
    """the postcondition of _annotate_target_subject as a relation between two dictionary values and a triple"""
    sk = ELEM_KEY.format(T + "[0]"); ok = ELEM_KEY.format(T + "[2]"); pk = T + "[1]._content"
    type_o = ("ite(%s != pi_, ite(has_class(%s[2], 'IRI'), 'IRI', ite(has_class(%s[2], 'BNode'), 'BNode', %s[2]._elem_type)), %s)" % (pk, T, T, T, ok))
    ocls = "%s[%s][0]" % (DN, ok)
    shape_of_o = ("((%s == 'IRI' or %s == 'BNode') and %s in %s and exists(Int, lambda j: 0 <= j and j < len(%s) and shape_name_of(%s[j]) == k))"
                  % (type_o, type_o, ok, DN, ocls, ocls))
    return ["%s in %s and %s in %s" % (sk, DO, sk, DN),
            "forall(Name, lambda k: %s == %s + ite(k == %s, 1, 0) + ite(%s, 1, 0))" % (get0("%s[%s][1]" % (DN, sk), pk, "k"), get0("%s[%s][1]" % (DO, sk), pk, "k"), type_o, shape_of_o),
            "same_except(%s[%s][1], %s[%s][1], %s)" % (DN, sk, DO, sk, pk),
            "%s[%s][0] == %s[%s][0]" % (DN, sk, DO, sk),
            "same_except(%s, %s, %s)" % (DN, DO, sk)]
IDict = Dict(Name, IEntry)
lemma("pass2_steps_commute",
      {"D0": IDict, "Da": IDict, "Dab": IDict, "Db": IDict, "Dba": IDict, "ta": Triple, "tb": Triple, "pi_": Name},
      hyps=step_rel("Da", "D0", "ta") + step_rel("Dab", "Da", "tb") + step_rel("Db", "D0", "tb") + step_rel("Dba", "Db", "ta"),
      goal="forall(Name, Name, Name, lambda x, p, k: implies(x in D0, %s == %s))" % (get0("Dab[x][1]", "p", "k"), get0("Dba[x][1]", "p", "k")),
      props=["C09"],
      note="two counting steps (contract of _annotate_target_subject) applied in either order give the same counters for every node, property and kind; "
           "adjacent transpositions generate all permutations (standard)")
lemma("pass2_steps_commute_domains",
      {"D0": IDict, "Da": IDict, "Dab": IDict, "Db": IDict, "Dba": IDict, "ta": Triple, "tb": Triple, "pi_": Name},
      hyps=step_rel("Da", "D0", "ta") + step_rel("Dab", "Da", "tb") + step_rel("Db", "D0", "tb") + step_rel("Dba", "Db", "ta"),
      goal="forall(Name, lambda x: (x in Dab) == (x in Dba) and implies(x in D0, Dab[x][0] == Dba[x][0]))", props=["C09"],
      note="same nodes and same class lists after either order")

lemma("pass2_steps_commute@canary",
      {"D0": IDict, "Da": IDict, "Dab": IDict, "Db": IDict, "Dba": IDict, "ta": Triple, "tb": Triple, "pi_": Name},
      hyps=step_rel("Da", "D0", "ta") + step_rel("Dab", "Da", "tb") + step_rel("Db", "D0", "tb") + step_rel("Dba", "Db", "ta"),
      goal="forall(Name, Name, Name, lambda x, p, k: implies(x in D0, %s == %s))" % (get0("Dab[x][1]", "p", "k"), get0("D0[x][1]", "p", "k")),
      props=["C09"], canary=True, note="false claim (two steps change nothing) under the same hypotheses: must not be provable")

# ---- the (property, kind, cardinality) tuples of one instance: returned as LISTS (they are iterated once per class of the instance) -------
contract(AFDS + "._infer_direct_3tuple_features", params={"an_instance": Name}, returns=List(F3), self_type=Strat,
    requires=["an_instance in %s" % ID, "forall(Name, Name, lambda p, k: implies(p in %s[an_instance][1] and k in %s[an_instance][1][p], %s[an_instance][1][p][k] >= 1))" % (ID, ID, ID)],
    ensures=["forall(Int, lambda j: implies(0 <= j and j < len(result), result[j][0] in %s[an_instance][1] and result[j][1] in %s[an_instance][1][result[j][0]]))" % (ID, ID)],
    raises=[], modifies=[],
    loops={k: {"invariant": ["forall(Int, lambda j: implies(0 <= j and j < len(result), result[j][0] in %s[an_instance][1] and result[j][1] in %s[an_instance][1][result[j][0]]))" % (ID, ID)]} for k in (0, 1, 2)},
    ghost={"__locals__": {"result": List(F3)}}, props=["C01", "C14", "C02", "C03"],
    note="a LIST of (property, kind, cardinality) taken from the instance's own counters: the caller iterates it once per class of the instance")
contract(IRFS + "._infer_inverse_3tuple_features", params={"an_instance": Name}, returns=List(F3), self_type=Strat2,
    requires=["an_instance in %s" % ID2, "forall(Name, Name, lambda p, k: implies(p in %s[an_instance][2] and k in %s[an_instance][2][p], %s[an_instance][2][p][k] >= 1))" % (ID2, ID2, ID2)],
    ensures=["forall(Int, lambda j: implies(0 <= j and j < len(result), result[j][0] in %s[an_instance][2] and result[j][1] in %s[an_instance][2][result[j][0]]))" % (ID2, ID2)],
    raises=[], modifies=[],
    loops={k: {"invariant": ["forall(Int, lambda j: implies(0 <= j and j < len(result), result[j][0] in %s[an_instance][2] and result[j][1] in %s[an_instance][2][result[j][0]]))" % (ID2, ID2)]} for k in (0, 1, 2)},
    ghost={"__locals__": {"result": List(F3)}}, props=["C01", "C14", "C02", "C03"],
    note="inverse twin; must stay a list (it is consumed once per class of the instance)")

# ---- which triples reach the counting steps (C14: only nodes are counted as incoming links; C10/C01: exactly the tracked nodes) -----------
REL = "result == ((has_class(an_instance, 'IRI') or has_class(an_instance, 'BNode')) and %s in {0})" % ELEM_KEY.format("an_instance")
contract(AFDS + "._is_relevant_instance", params={"an_instance": ANode}, returns=Bool, self_type=Strat,
    ensures=[REL.format(ID)], raises=[], modifies=[], props=["C14", "C10", "C01", "C03"],
    note="a term is counted only if it is an IRI or blank node present in the instance dictionary: a literal is never an instance, whatever its text")
contract(IRFS + "._is_relevant_instance", params={"an_instance": ANode}, returns=Bool, self_type=Strat2,
    ensures=[REL.format(ID2)], raises=[], modifies=[], props=["C14", "C03"],
    note="the inherited test verified against the inverse strategy's dictionary: a literal object is never counted as an incoming link")
contract(DFS + ".is_a_relevant_triple", params={"a_triple": Triple}, returns=Bool, self_type=Strat,
    ensures=["result == (%s and %s in %s)" % (SUBJ_NODE, SK, ID)], raises=[], modifies=[], props=["C01", "C10"],
    note="direct strategy: a triple is profiled exactly when its subject is a tracked node")
contract(IRFS + ".is_a_relevant_triple", params={"a_triple": Triple}, returns=Bool, self_type=Strat2,
    ensures=["result == ((%s and %s in %s) or (%s and %s in %s))" % (SUBJ_NODE, SKEY2, ID2, OBJ_NODE, OKEY2, ID2)], raises=[], modifies=[], props=["C14"],
    note="inverse strategy: a triple is profiled exactly when its subject or its (non-literal) object is a tracked node")
