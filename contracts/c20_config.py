"""C20 - contradictory or unsupported configurations are rejected up front.
The reference predicate below is transcribed from the property statement, not from the code."""
import ast
from pyvc.api import *
from pyvc import extract as X

O = Opt(Str)        # "is None" flag + value: the concrete value of a present source/target argument is irrelevant to the checks
SH = "shexer.shaper:Shaper"

def n_present(names):
    return "(" + " + ".join("ite(%s is not None, 1, 0)" % n for n in names) + ")"

# ---- check_just_one_not_none: verified stand-alone at the two arities used by its call sites; inlined at the call sites
for arity in (7, 4):
    names = ["value_refname[%d][0]" % i for i in range(arity)]
    contract("shexer.utils.obj_references:check_just_one_not_none@%d" % arity,
        params={"value_refname": display(*[Tup(O, Str)] * arity)},
        raises=[("ValueError", n_present(names) + " != 1")], props=["C20"],
        note="varargs unrolled at arity %d (call site: %s)" % (arity, "Shaper.__init__" if arity == 7 else "Shaper._check_target_classes"))
contract("shexer.utils.obj_references:check_just_one_not_none", params={}, inline=True, verify=False, props=["C20"])

SOURCES = ["graph_file_input", "graph_list_of_files_input", "raw_graph", "url_graph_input", "list_of_url_input", "url_endpoint", "rdflib_graph"]
TARGETS4 = ["target_classes", "file_target_classes", "shape_map_file", "shape_map_raw"]

BAD_TARGETS = ("((not all_classes_mode) and %s != 1) or (all_classes_mode and (target_classes is not None or file_target_classes is not None))"
               % n_present(TARGETS4))
BAD_FORMAT = "not (input_format == 'nt' or input_format == 'tsv_spo' or input_format == 'n3' or input_format == 'turtle' or input_format == 'xml' or input_format == 'json-ld' or input_format == 'turtle_iter')"
BAD_COMPRESSION = "not (compression_mode is None or compression_mode == 'zip' or compression_mode == 'gz' or compression_mode == 'xz')"
COMPRESSED_REMOTE = "compression_mode is not None and (url_endpoint is not None or url_graph_input is not None or list_of_url_input is not None)"
BAD_EXAMPLES = "not (examples_mode is None or examples_mode == 'all' or examples_mode == 'cons' or examples_mode == 'shape')"
BAD_OR = "or_disabled and enable_redundant"

contract(SH + "._check_target_classes",
    params={"target_classes": O, "file_target_classes": O, "all_classes_mode": Bool, "shape_map_file": O, "shape_map_raw": O},
    raises=[("ValueError", BAD_TARGETS)], props=["C20"])
contract(SH + "._check_or_config", params={"or_disabled": Bool, "enable_redundant": Bool},
    raises=[("ValueError", BAD_OR)], props=["C20"])
contract(SH + "._check_input_format", params={"input_format": Str}, raises=[("ValueError", BAD_FORMAT)], props=["C20"])
contract(SH + "._check_compression_mode",
    params={"compression_mode": O, "url_endpoint": O, "url_graph_input": O, "list_of_url_input": O},
    raises=[("ValueError", "(%s) or (%s)" % (BAD_COMPRESSION, COMPRESSED_REMOTE))], props=["C20"])
contract(SH + "._check_examples_mode", params={"examples_mode": O}, raises=[("ValueError", BAD_EXAMPLES)], props=["C20"])
contract(SH + "._check_output_format", params={"output_format": Str},
    raises=[("ValueError", "not (output_format == 'ShEx' or output_format == 'Shacl')")], props=["C20"])
contract(SH + "._check_aceptance_threshold", params={"aceptance_threshold": Real},
    raises=[("ValueError", "aceptance_threshold < 0 or aceptance_threshold > 1")], props=["C20", "C12"])
contract(SH + "._check_correct_output_params",
    params={"string_output": Bool, "target_file": O, "to_uml_path": O},
    raises=[("ValueError", "(not string_output) and target_file is None and to_uml_path is None")], props=["C20", "C04"])

# ---- the constructor: ValueError exactly for the reference predicate; nothing deferred
_m, _c, _init = X.find_function(SH + ".__init__")
_names, _defaults, _, _ = X.signature(_init)
PARAM_T = {n: O for n in SOURCES + TARGETS4}
PARAM_T.update({
    "input_format": Str, "instances_file_input": O, "namespaces_dict": Opt(Dict(Str, Str)), "instantiation_property": Str,
    "namespaces_to_ignore": O, "infer_numeric_types_for_untyped_literals": Bool,
    "discard_useless_constraints_with_positive_closure": Bool, "all_instances_are_compliant_mode": Bool,
    "keep_less_specific": Bool, "all_classes_mode": Bool, "depth_for_building_subgraph": Int,
    "track_classes_for_entities_at_last_depth_level": Bool, "strict_syntax_with_corners": Bool, "shape_map_format": Str,
    "shape_qualifiers_mode": Bool, "namespaces_for_qualifier_props": O, "remove_empty_shapes": Bool, "disable_comments": Bool,
    "disable_or_statements": Bool, "allow_opt_cardinality": Bool, "disable_exact_cardinality": Bool, "shapes_namespace": Str,
    "limit_remote_instances": Int, "wikidata_annotation": Bool, "inverse_paths": Bool, "compression_mode": O, "decimals": Int,
    "instances_report_mode": Str, "disable_endpoint_cache": Bool, "detect_minimal_iri": Bool, "allow_redundant_or": Bool,
    "instances_cap": Int, "examples_mode": O})
missing = [n for n in _names[1:] if n not in PARAM_T]
assert not missing, "Shaper.__init__ has parameters without a declared type: %s" % missing

# heap layout of Shaper: every 'self._x = <parameter>' takes the parameter's type (read from the real source each run)
FIELDS = {}
for node in ast.walk(_init):
    if isinstance(node, ast.Assign) and len(node.targets) == 1 and isinstance(node.targets[0], ast.Attribute) \
            and isinstance(node.targets[0].value, ast.Name) and node.targets[0].value.id == "self":
        f = node.targets[0].attr
        if isinstance(node.value, ast.Name) and node.value.id in PARAM_T: FIELDS[f] = PARAM_T[node.value.id]
        elif isinstance(node.value, ast.Constant) and node.value.value is None: FIELDS[f] = Opt(Int)   # lazily built stages: only None-ness matters here
FIELDS.update({"_namespaces_dict": Dict(Str, Str), "_instantiation_property": Str, "_limit_remote_instances": Int,
               "_built_remote_graph": Opt(Int), "_built_shape_map": Opt(Int)})
ShaperT = schema("Shaper", [SH], FIELDS)

contract("shexer.utils.dict:reverse_keys_and_values", params={"target_dict": Dict(Str, Str)}, returns=Dict(Str, Str),
    assume_only=True, verify=False, note="dict comprehension; result only feeds prefix expansion of the instantiation property")
contract("shexer.utils.uri:unprefixize_uri_if_possible",
    params={"target_uri": Str, "prefix_namespaces_dict": Dict(Str, Str), "include_corners": Bool}, returns=Str,
    assume_only=True, verify=False, note="total on strings (proved separately under C10); here only exception-freedom is used")
contract(SH + "._add_shapes_namespaces_to_namespaces_dict", params={}, modifies=["Shaper._namespaces_dict[self]"],
    assume_only=True, verify=False, note="exception-freedom; content proved under C05/C18")
contract("shexer.utils.factories.remote_graph_factory:get_remote_graph_if_needed",
    params={"endpoint_url": O, "store_locally": Bool}, returns=Opt(Int), assume_only=True, verify=False,
    note="ASSUMED: building the endpoint wrapper does not raise")
contract("shexer.io.shape_map.shape_map_parser:ShapeMapParser._check_input", params={"source_file": O, "raw_content": O},
    raises=[("ValueError", "(source_file is None) == (raw_content is None)")], props=["C20"],
    note="a shape map given both as file and as text (possible together with all_classes_mode, which Shaper._check_target_classes lets through) "
         "is rejected here, inside the constructor: exactly one of the two")
contract("shexer.utils.factories.shape_map_factory:get_shape_map_if_needed",
    params={"sm_format": Str, "remote_sgraph": Opt(Int), "namespaces_prefix_dict": Opt(Dict(Str, Str)), "target_classes": O, "file_target_classes": O,
            "shape_map_file": O, "shape_map_raw": O, "instantiation_property": Str, "shape_map_already_built": Opt(Int), "rdflib_graph": O,
            "raw_graph": O, "source_file_graph": O, "input_format": Str, "limit_remote_instances": Int},
    returns=Opt(Int), raises=[("ValueError", "shape_map_file is not None and shape_map_raw is not None")], assume_only=True, verify=False,
    note="ASSUMED: with a shape map present the parser's _check_input (verified above) runs and nothing else raises - a well-formed shape map "
         "parses, and the graph that resolves its selectors can be built. The second half is KNOWN TO BE FALSE for list-of-files / URL sources, "
         "compressed files and the formats tsv_spo / turtle_iter (finding F-C20-shape-map-graph-by-rdflib, exercised by bounded/config.py)")

INIT_INVALID = [
    ("ValueError", n_present(SOURCES) + " != 1"),
    ("ValueError", BAD_TARGETS),
    ("ValueError", "all_classes_mode and shape_map_file is not None and shape_map_raw is not None"),      # several target specifications
    ("ValueError", "disable_or_statements and allow_redundant_or"),
    ("ValueError", BAD_FORMAT),
    ("ValueError", "(%s) or (%s)" % (BAD_COMPRESSION, COMPRESSED_REMOTE)),
    ("ValueError", BAD_EXAMPLES)]
# option plumbing: every option is stored under its own name, unchanged (the stages read these fields: contracts/plumbing.py)
_RENAMED = {"discard_useless_constraints_with_positive_closure": "_discard_useles_constraints_with_positive_closure",
            "all_instances_are_compliant_mode": "_all_compliant_mode"}
_DERIVED = {"namespaces_dict", "instantiation_property", "limit_remote_instances"}
STORED = ["self.%s == %s" % (_RENAMED.get(n, "_" + n), n) for n in _names[1:]
          if n not in _DERIVED and _RENAMED.get(n, "_" + n) in FIELDS and FIELDS[_RENAMED.get(n, "_" + n)] == PARAM_T[n]]
STORED.append("self._limit_remote_instances == ite(instances_cap == -1, limit_remote_instances, instances_cap)")     # instances_cap wins over the deprecated option
contract(SH + ".__init__", params=PARAM_T, raises=INIT_INVALID, ensures=STORED, modifies=["*"], props=["C20", "C13", "C15", "C16", "C19"], cover=True,
    note="raises ValueError iff the reference predicate of the statement holds; every other combination returns normally, with every option stored "
         "under its own name (instances_cap taking precedence over the deprecated limit_remote_instances)")

# ---- call-time checks of shex_graph / profile_graph -------------------------------------------------------------
SCHEMAS["Shaper"].fields.update({"_target_classes_dict": Opt(Int), "_profile": Opt(Int), "_shape_list": Opt(Int), "_shape_list_threshold": Opt(Real),
               "_class_shexer": Opt(Int)})
# C18: the cached list of shapes belongs to one threshold.  thr_of(token) = the threshold the shapes behind `token` were computed for.
specfun("thr_of", [Int], Real)
CACHE_INV = "implies(self._shape_list is not None, self._shape_list_threshold is not None and thr_of(some(self._shape_list)) == some(self._shape_list_threshold))"
SerT = schema("ShapeSerializer", ["ext:AnyShapeSerializer"], {})      # opaque here: ShexSerializer or ShaclSerializer (their own contracts: C18, C11)
PIPE = dict(assume_only=True, verify=False, modifies=["*"],
            note="pipeline stage abstracted here (exception-freedom is C04's subject, content C01-C19's)")
STAGE = dict(assume_only=True, verify=False, note="pipeline stage abstracted here (exception-freedom is C04's subject, content C01-C19's)")
contract(SH + "._launch_instance_tracker", params={}, modifies=["Shaper._instance_tracker[self]", "Shaper._target_classes_dict[self]"],
         ensures=["self._target_classes_dict is not None"], **STAGE)
contract(SH + "._launch_class_profiler", params={}, modifies=["Shaper._class_profiler[self]", "Shaper._profile[self]", "Shaper._class_counts[self]", "Shaper._class_min_iris[self]"],
         ensures=["self._profile is not None"], **STAGE)
contract(SH + "._launch_class_shexer", params={"acceptance_threshold": Real}, assume_only=True, verify=False,
         modifies=["Shaper._class_shexer[self]", "Shaper._shape_list[self]"],
         ensures=["self._shape_list is not None", "thr_of(some(self._shape_list)) == acceptance_threshold"],
         note="pipeline stage abstracted: builds the shapes for the threshold it is given (content: C02/C12)")
contract(SH + "._generate_uml_diagram", params={"to_uml_path": O}, raises=[("ResourceWarning", "?True")], modifies=[], **STAGE)
contract(SH + "._build_shapes_serializer", params={"target_file": O, "string_return": Bool, "output_format": Str},
         returns=SerT, modifies=["alloc"], **STAGE)
contract("ext:AnyShapeSerializer.serialize_shapes", params={}, returns=O, modifies=[], self_type=SerT, **STAGE)

SHEX_INVALID = [
    ("ValueError", "(not string_output) and output_file is None and to_uml_path is None"),
    ("ValueError", "not (output_format == 'ShEx' or output_format == 'Shacl')"),
    ("ValueError", "acceptance_threshold < 0 or acceptance_threshold > 1")]
contract(SH + ".shex_graph",
    params={"string_output": Bool, "output_file": O, "output_format": Str, "acceptance_threshold": Real, "to_uml_path": O},
    returns=O, raises=SHEX_INVALID, requires=[CACHE_INV],
    ensures=[CACHE_INV, "self._shape_list is not None", "thr_of(some(self._shape_list)) == acceptance_threshold"],
    modifies=["*"], props=["C20", "C04", "C18", "C12"],
    note="ValueError iff no sink / unknown format / threshold outside [0,1]; the shapes that get serialised were computed for THIS call's threshold (cache invariant)")
contract(SH + ".profile_graph", params={"string_output": Bool, "output_file": O}, returns=O,
    raises=[("ValueError", "(not string_output) and output_file is None")], modifies=["*"], props=["C04"],
    note="call shape of _check_correct_output_params (3 parameters) at this call site")
APS = "shexer.io.profile.formater.abstract_profile_serializer:AbstractProfileSerializer"
ProfSer = schema("ProfSer", [APS], {})
contract(APS + ".__init__", params={"profile_obj": Opt(Int)}, **PIPE)
contract(APS + ".get_string_representation", params={}, returns=O, **PIPE)
contract(APS + ".write_profile_to_file", params={"target_file": O}, returns=O, **PIPE)

# ---- must-fail canaries: deliberately wrong reference predicates that the verifier has to refute ------------------
contract(SH + "._check_compression_mode@canary",
    params={"compression_mode": O, "url_endpoint": O, "url_graph_input": O, "list_of_url_input": O},
    raises=[("ValueError", "(%s) or (compression_mode is not None and (url_endpoint is not None or url_graph_input is not None))" % BAD_COMPRESSION)],
    props=["C20"], canary=True, note="wrong constant variant: forgets list_of_url_input")
contract(SH + "._check_aceptance_threshold@canary", params={"aceptance_threshold": Real},
    raises=[("ValueError", "aceptance_threshold <= 0 or aceptance_threshold > 1")], props=["C20"], canary=True)
