"""Figures as text (C01 item 8, C13 decimals): frequency strategies, probability / comment rendering."""
from pyvc.api import *
from contracts import common
V = common.install(suffix="S", register=False)      # string view of the statement model, next to the atom view used by the selection stage
Statement, StSer, FreqSer = V["Statement"], V["StSer"], V["FreqSer"]
spectype("StatementS", Statement)
FS = "shexer.io.shex.formater.statement_serializers.frequency_strategy."
RATIO = FS + "ratio_freq_serializer:RatioFreqSerializer"
ABS = FS + "abs_freq_serializer:AbsFreqSerializer"
MIXED = FS + "mixed_frequency_strategy:MixedFrequencyStrategy"
Ratio = schema("RatioSer", [RATIO], {"_decimals": Int},
               funfields={"serialize_frequency": [("self._decimals < 0", "_serialize_freq_unbounded"), ("self._decimals == 0", "_serialize_freq_int"),
                                                  ("True", "_serialize_freq_decimals")]}, register=False)
contract(RATIO + ".__init__", params={"decimals": Int}, self_type=Ratio, ensures=["self._decimals == decimals"], raises=[],
    modifies=["RatioSer._decimals[self]"], props=["C13"],
    note="decimals < 0: unbounded repr; decimals == 0: integer percentage; else fixed number of decimals (the assignment of the bound method is checked "
         "against this dispatch table)")
specfun("float_text", [Real], Str)     # str(float): CPython's shortest repr of the double nearest to the (real) value - assumed
COUNT_TEXT = "str_from_int(statement._n_occurences) + ' instance' + ite(statement._n_occurences == 1, '', 's') + '.'"
contract(ABS + ".serialize_frequency", params={"statement": Statement}, returns=Str, self_type=FreqSer, requires=["statement._n_occurences >= 0"],
    ensures=["result == " + COUNT_TEXT], raises=[], props=["C01", "C13"], note="'n instance(s).' with the statement's own count")
contract(RATIO + "._serialize_freq_unbounded", params={"statement": Statement}, returns=Str, self_type=Ratio,
    ensures=["result == py_str_float(statement._probability * 100) + ' %'"], raises=[], props=["C01", "C13"],
    note="the printed ratio is str(probability * 100) of THIS statement (float printing itself is an assumed CPython contract)")
# decimals=0 must print the ratio ROUNDED to 0 places (statement of C13); half-way cases are left open (either rounding mode)
PCT = "(statement._probability * 100)"
contract(RATIO + "._serialize_freq_int", params={"statement": Statement}, returns=Str, self_type=Ratio,
    requires=["statement._probability >= 0"],
    ensures=["implies(%s - to_real(floor(%s)) < 0.5, result == str_from_int(floor(%s)) + ' %%')" % (PCT, PCT, PCT),
             "implies(%s - to_real(floor(%s)) > 0.5, result == str_from_int(floor(%s) + 1) + ' %%')" % (PCT, PCT, PCT)],
    raises=[], props=["C13"], note="rounded to 0 places, NOT truncated")
