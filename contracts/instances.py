"""Pass 1 (node -> classes).  C10 (exactly the selected nodes), C16 (instances_cap), C01/C09 (first counting pass).
Node and class identities are opaque atoms: the code only compares / hashes them (enforced by the translator)."""
from pyvc.api import *

Name = spectype("Name", Atom("Name"))
M = "shexer.model."
ANode = schema("ANode", [M + "IRI:IRI", M + "bnode:BNode", M + "Literal:Literal", M + "property:Property"],
               {"_content": Name, "_identifier": Name, "_elem_type": Name}, eq_inline=True)
Triple = Tup(ANode, ANode, ANode)
InstBox = box("InstBox", Dict(Name, List(Name)))
SM = "shexer.core.instances.annotators.strategy_mode."
MODES = [SM + "all_classes_mode:AllClasesMode", SM + "target_classes_mode:TargetClassesMode",
         SM + "instance_cap_mode:InstanceCapMode", SM + "compound_strategy_mode:CompoundStrategyMode"]
TRK = "shexer.core.instances.instance_tracker:InstanceTracker"
ANN = "shexer.core.instances.annotators.base_annotator:BaseAnnotator"
Tracker = schema("Tracker", [TRK], {"_instantiation_property": ANode, "_instances_dict": InstBox,
                                    "_relevant_triples": Int, "_not_relevant_triples": Int})
Annot = schema("Annot", [ANN], {"_instances_dict": InstBox, "_instance_tracker": Tracker, "_instantiation_property": ANode,
                                "_target_classes": Opt(List(ANode)), "_all_classes_mode": Bool, "_instances_cap": Int})
Mode = schema("Mode", MODES, {"_annotator_ref": Annot, "_instantiation_property": ANode, "_instances_dict": InstBox,
                              "_instance_tracker": Tracker, "_target_classes": List(ANode),
                              "_instance_limit": Int, "_class_counts": Dict(Name, Int), "_n_target_classes": Int,
                              "_n_classes_completed": Int},
              funfields={"annotate_class": [("has_class(self, 'InstanceCapMode') and self._n_target_classes > 0", "_annotate_class_with_stop_condition"),
                                            ("has_class(self, 'InstanceCapMode')", "_annotate_class_with_no_stop_condition"),
                                            ("True", "annotate_class")]})
SCHEMAS["Mode"].fields["_internal_strategy"] = Mode

IS_PROP = "has_class(a_triple[1], 'Property')"
SUBJ_NODE = "(has_class(a_triple[0], 'IRI') or has_class(a_triple[0], 'BNode'))"
OBJ_NODE = "(has_class(a_triple[2], 'IRI') or has_class(a_triple[2], 'BNode'))"
PI_PROP = "has_class(self._instantiation_property, 'Property')"
SKEY = "ite(has_class(a_triple[0], 'IRI'), a_triple[0]._content, a_triple[0]._identifier)"
OKEY = "ite(has_class(a_triple[2], 'IRI'), a_triple[2]._content, a_triple[2]._identifier)"
IS_PI = "(a_triple[1]._content == self._instantiation_property._content)"
WIRING = ["self._instances_dict == self._annotator_ref._instances_dict",             # one shared dictionary (aliases made explicit)
          "self._instance_tracker == self._annotator_ref._instance_tracker",
          "self._instance_tracker._instantiation_property == self._instantiation_property", PI_PROP]
D = "self._instances_dict"

# ---- relevance (C10): predicate == instantiation property and (all classes or object in the target list)
contract(SM + "all_classes_mode:AllClasesMode.is_relevant_triple", params={"a_triple": Triple}, returns=Bool,
    requires=[IS_PROP, PI_PROP], ensures=["result == " + IS_PI], raises=[], props=["C10", "C01"])
contract(SM + "target_classes_mode:TargetClassesMode.is_relevant_triple", params={"a_triple": Triple}, returns=Bool,
    requires=[IS_PROP, PI_PROP, "forall(Int, lambda i: implies(0 <= i and i < len(self._target_classes), has_class(self._target_classes[i], 'IRI')))"],
    ensures=["result == (%s and has_class(a_triple[2], 'IRI') and exists(Int, lambda i: 0 <= i and i < len(self._target_classes) and self._target_classes[i]._content == a_triple[2]._content))" % IS_PI],
    raises=[], props=["C10", "C01"],
    note="a blank-node or literal object never matches a target class (IRI.__eq__ inlined from the real source)")
contract(ANN + ".add_instance_to_instances_dict", params={"a_triple": Triple}, requires=[SUBJ_NODE],
    ensures=["%s in %s" % (SKEY, D), "implies(old(%s in %s), list_eq(%s[%s], old(%s[%s])))" % (SKEY, D, D, SKEY, D, SKEY),
             "implies(not old(%s in %s), is_empty_list(%s[%s]))" % (SKEY, D, D, SKEY),
             "same_except(unboxed(%s), old(unboxed(%s)), %s)" % (D, D, SKEY)],
    raises=[], modifies=["InstBox.val[self._instances_dict]"], props=["C10", "C01", "C16"])
ANNOTATE_POST = ["%s in %s" % (SKEY, D),
                 "is_append(%s[%s], old(%s[%s]), %s)" % (D, SKEY, D, SKEY, OKEY),
                 "same_except(unboxed(%s), old(unboxed(%s)), %s)" % (D, D, SKEY)]
contract(SM + "base_strategy_mode:BaseStrategyMode.annotate_class", params={"a_triple": Triple},
    requires=[SUBJ_NODE, OBJ_NODE, "%s in %s" % (SKEY, D)], ensures=ANNOTATE_POST, raises=[],
    modifies=["InstBox.val[self._instances_dict]"], props=["C10", "C01", "C16"], self_type=Mode)
STEP_POST = [   # one relevant instantiation triple (s, pi, C): C is appended to classes(s); s is added if new; every other node untouched
    "implies(%s, %s in %s)" % (IS_PI, SKEY, D),
    "implies(%s and old(%s in %s), is_append(%s[%s], old(%s[%s]), %s))" % (IS_PI, SKEY, D, D, SKEY, D, SKEY, OKEY),
    "implies(%s and not old(%s in %s), len(%s[%s]) == 1 and %s[%s][0] == %s)" % (IS_PI, SKEY, D, D, SKEY, D, SKEY, OKEY),
    "same_except(unboxed(%s), old(unboxed(%s)), %s)" % (D, D, SKEY),
    "implies(not %s, select_eq(unboxed(%s), old(unboxed(%s)), %s))" % (IS_PI, D, D, SKEY)]
for cls in ("all_classes_mode:AllClasesMode", "target_classes_mode:TargetClassesMode"):
    contract(SM + cls + ".annotate_triple", params={"a_triple": Triple},
        requires=WIRING + [IS_PROP, SUBJ_NODE, "implies(%s, %s)" % (IS_PI, OBJ_NODE)], ensures=STEP_POST, raises=[],
        modifies=["InstBox.val[self._instances_dict]"], props=["C10", "C01", "C09"],
        note="step of pass 1; the stream-level fold is pure induction over this step (bounded monitor covers the composition)")

# ---- instances_cap (C16): per-class counter, early stop ----------------------------------------------------------------
CAP = SM + "instance_cap_mode:InstanceCapMode"
CNT = "self._class_counts"
specfun("relevant_for", [Mode, Triple], Bool)    # what the wrapped strategy answers (its own contract is above)
contract(SM + "base_strategy_mode:BaseStrategyMode.is_relevant_triple", params={"a_triple": Triple}, returns=Bool, self_type=Mode,
    ensures=["result == relevant_for(self, a_triple)"], raises=[], assume_only=True, verify=False,
    note="dynamic dispatch to the wrapped strategy: a pure function of (strategy, triple); the concrete strategies are verified separately")
SCHEMAS["Mode"].virtual = {"is_relevant_triple": SM + "base_strategy_mode:BaseStrategyMode.is_relevant_triple"}
FULL = "(%s and %s in %s and %s[%s] >= self._instance_limit)" % (IS_PI, OKEY, CNT, CNT, OKEY)
contract(CAP + "._check_class_counts", params={"a_triple": Triple}, returns=Bool,
    requires=[IS_PROP, PI_PROP, "implies(%s, %s)" % (IS_PI, OBJ_NODE)],
    ensures=["result == (not %s)" % FULL], raises=[], props=["C16"],
    note="an instantiation triple is rejected exactly when its class already has `limit` accepted instances")
contract(CAP + ".is_relevant_triple", params={"a_triple": Triple}, returns=Bool,
    requires=[IS_PROP, PI_PROP, "implies(%s, %s)" % (IS_PI, OBJ_NODE)],
    ensures=["result == ((not %s) and relevant_for(self._internal_strategy, a_triple))" % FULL], raises=[], props=["C16", "C10"])
COUNT_POST = ["%s in %s" % (OKEY, CNT), "%s[%s] == ite(old(%s in %s), old(%s[%s]) + 1, 1)" % (CNT, OKEY, OKEY, CNT, CNT, OKEY),
              "same_except(%s, old(%s), %s)" % (CNT, CNT, OKEY)]
BOUND_INV = "forall(Name, lambda c: implies(c in %s, %s[c] <= self._instance_limit))" % (CNT, CNT)
ACCEPTED = "implies(%s in %s, %s[%s] < self._instance_limit)" % (OKEY, CNT, CNT, OKEY)     # the relevance test passed for this triple
contract(CAP + "._annotate_class_with_no_stop_condition", params={"a_triple": Triple},
    requires=[SUBJ_NODE, OBJ_NODE, "%s in %s" % (SKEY, D), BOUND_INV, ACCEPTED, "self._instance_limit >= 1"],
    ensures=ANNOTATE_POST + COUNT_POST + [BOUND_INV], raises=[],
    modifies=["InstBox.val[self._instances_dict]", "Mode._class_counts[self]"], props=["C16"])
DONE = "self._n_classes_completed"
contract(CAP + "._annotate_class_with_stop_condition", params={"a_triple": Triple},
    requires=[SUBJ_NODE, OBJ_NODE, "%s in %s" % (SKEY, D), BOUND_INV, ACCEPTED, "self._instance_limit >= 1"],
    ensures=ANNOTATE_POST + COUNT_POST + [BOUND_INV,
             "%s == old(%s) + ite(%s[%s] == self._instance_limit, 1, 0)" % (DONE, DONE, CNT, OKEY), "%s != self._n_target_classes" % DONE],
    raises=[("InstancesCapException", "?(%s + ite(ite(%s in %s, %s[%s] + 1, 1) == self._instance_limit, 1, 0)) == self._n_target_classes" % (DONE, OKEY, CNT, CNT, OKEY))],
    modifies=["InstBox.val[self._instances_dict]", "Mode._class_counts[self]", "Mode._n_classes_completed[self]"], props=["C16"],
    note="early stop only when the number of full classes reaches the number of target classes")
contract(CAP + ".annotate_triple", params={"a_triple": Triple},
    requires=WIRING + [IS_PROP, SUBJ_NODE, "implies(%s, %s)" % (IS_PI, OBJ_NODE), BOUND_INV, "implies(%s, %s)" % (IS_PI, ACCEPTED), "self._instance_limit >= 1"],
    ensures=STEP_POST + [BOUND_INV, "implies(%s, %s[%s] == ite(old(%s in %s), old(%s[%s]) + 1, 1))" % (IS_PI, CNT, OKEY, OKEY, CNT, CNT, OKEY),
                         "implies(%s, same_except(%s, old(%s), %s))" % (IS_PI, CNT, CNT, OKEY),
                         "implies(not %s, same_except(%s, old(%s)))" % (IS_PI, CNT, CNT)],
    raises=[("InstancesCapException", "?%s and self._n_target_classes > 0" % IS_PI)],
    modifies=["InstBox.val[self._instances_dict]", "Mode._class_counts[self]", "Mode._n_classes_completed[self]"], props=["C16", "C10"],
    note="cap step: accepted instance recorded, its class counter incremented, every counter stays <= limit")
contract(CAP + "._check_class_counts@canary", params={"a_triple": Triple}, returns=Bool,
    requires=[IS_PROP, PI_PROP, "implies(%s, %s)" % (IS_PI, OBJ_NODE)],
    ensures=["result == (not (%s and %s in %s and %s[%s] > self._instance_limit))" % (IS_PI, OKEY, CNT, CNT, OKEY)], props=["C16"], canary=True)

# ---- shape-map targets (C10, C01): a node is an instance of a label at most once, whatever the selector returns ---------------------
SMT = "shexer.core.instances.mappings.shape_map_instance_tracker:ShapeMapInstanceTracker"
Selector = schema("NodeSelector", ["ext:NodeSelector"], {})
Item = schema("ShapeMapItem", ["shexer.model.shape_map:ShapeMapItem"], {"_node_selector": Selector, "_shape_label": Name})
SMTracker = schema("SMTracker", [SMT], {"_instances_dict": Dict(Name, List(Name))})
contract("ext:NodeSelector.get_target_nodes", params={}, returns=List(Name), self_type=Selector, modifies=[], raises=[], assume_only=True, verify=False,
    note="ASSUMED: the selector returns a list of node identifiers (possibly with repetitions: one row per SPARQL solution)")
SD = "self._instances_dict"
NODUP = "forall(Name, lambda x: implies(x in %s, forall(Int, Int, lambda i, j: implies(0 <= i and i < j and j < len(%s[x]), %s[x][i] != %s[x][j]))))" % (SD, SD, SD, SD)
HASLABEL = "exists(Int, lambda q: 0 <= q and q < len(%s[{0}]) and %s[{0}][q] == an_item._shape_label)" % (SD, SD)
contract(SMT + "._solve_targets_of_an_item", params={"an_item": Item}, requires=[NODUP],
    ensures=[NODUP,                                                                       # no label twice for one node => it counts once
             "forall(Name, lambda x: implies(old(x in %s), x in %s))" % (SD, SD)],
    raises=[], modifies=["SMTracker._instances_dict[self]"],
    loops={0: {"invariant": [NODUP, "forall(Name, lambda x: implies(old(x in %s), x in %s))" % (SD, SD),
                             "forall(Int, lambda t: implies(0 <= t and t < _i0, _seq0[t] in %s and %s))" % (SD, HASLABEL.format("_seq0[t]"))]}},
    props=["C10", "C01", "C02"],
    note="the label lists stay duplicate-free: a node delivered several times by a selector (or by two items with one label) is ONE instance of the shape")

# ---- all_classes_mode combined with a shape map (C10 "both together"): union of the two node->labels dictionaries ----------------------
MIT = "shexer.core.instances.mix.mixed_instance_tracker:MixedInstanceTracker"
AnyTracker = schema("AnyTracker", ["ext:AnyInstanceTracker"], {})
MixT = schema("MixTracker", [MIT], {})
IDICT = Dict(Name, List(Name))
specfun("ambiguous_label", [AnyTracker, Name], Name)
contract(MIT + "._find_all_classes_in_dict", params={"instances_dict": IDICT}, returns=Set(Name), self_type=MixT,
    ensures=["forall(Name, lambda c: (c in result) == exists(Name, lambda x: x in instances_dict and exists(Int, lambda q: 0 <= q and q < len(instances_dict[x]) and instances_dict[x][q] == c)))"],
    raises=[], assume_only=True, verify=False, note="the set of labels used in the dictionary (membership-only set; two nested loops with an existential witness: assumed here)")
contract(MIT + "._get_label_for_ambiguous_class", params={"a_class": Name, "tracker": AnyTracker}, returns=Name, self_type=MixT,
    ensures=["result == ambiguous_label(tracker, a_class)"], raises=[], assume_only=True, verify=False,
    note="ASSUMED: disambiguated label (string concatenation with a global counter)")
RD, ND = "reference_dict", "new_dict"
contract(MIT + "._integrate_dicts", params={RD: IDICT, ND: IDICT, "new_tracker": AnyTracker}, mutates=[RD], self_type=MixT,
    ensures=[   # whole view: every node of either dictionary is there; labels of the first tracker are KEPT (prefix), those of the second appended
        "forall(Name, lambda x: (x in %s) == (old(x in %s) or x in %s))" % (RD, RD, ND),
        "forall(Name, lambda x: implies(old(x in %s), len(%s[x]) == len(old(%s)[x]) + ite(x in %s, len(%s[x]), 0) and "
        "forall(Int, lambda q: implies(0 <= q and q < len(old(%s)[x]), %s[x][q] == old(%s)[x][q]))))" % (RD, RD, RD, ND, ND, RD, RD, RD),
        "forall(Name, lambda x: implies(x in %s and not old(x in %s), len(%s[x]) == len(%s[x])))" % (ND, RD, RD, ND)],
    raises=[],
    loops={0: {"invariant": [
        "forall(Name, lambda x: (x in %s) == (old(x in %s) or exists(Int, lambda t: 0 <= t and t < _i0 and _keys0[t] == x)))" % (RD, RD),
        "forall(Name, lambda x: implies(old(x in %s), len(%s[x]) == len(old(%s)[x]) + ite(exists(Int, lambda t: 0 <= t and t < _i0 and _keys0[t] == x), len(%s[x]), 0) and "
        "forall(Int, lambda q: implies(0 <= q and q < len(old(%s)[x]), %s[x][q] == old(%s)[x][q]))))" % (RD, RD, RD, ND, RD, RD, RD),
        "forall(Name, lambda x: implies(not old(x in %s) and exists(Int, lambda t: 0 <= t and t < _i0 and _keys0[t] == x), len(%s[x]) == len(%s[x])))" % (RD, RD, ND)]},
           1: {"invariant": [
        "an_instance in %s" % RD, "an_instance == _keys0[_i0]", "list_eq(classes, %s[an_instance])" % ND,
        "forall(Name, lambda x: implies(x != an_instance, select_eq(%s, at_loop(1, %s), x)))" % (RD, RD),
        "len(%s[an_instance]) == at_loop(1, len(%s[an_instance])) + _i1" % (RD, RD),
        "forall(Int, lambda q: implies(0 <= q and q < at_loop(1, len(%s[an_instance])), %s[an_instance][q] == at_loop(1, %s[an_instance])[q]))" % (RD, RD, RD)]}},
    props=["C10", "C01", "C05"],
    note="integration of the class tracker into the shape-map tracker: nothing the shape map selected is lost or overwritten; every class label is added")
