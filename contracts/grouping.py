"""C02 / C12 / C09 / C03 - the two O(n^2) grouping loops of the selection stage, with loop invariants.

_group_constraints_with_same_prop_and_obj: the candidates of one direction of one shape are partitioned by their key
(property, kind); the result holds exactly one statement per key of the input, and that statement is a member of the input
("all and only": nothing lost, nothing duplicated, nothing invented).  The visited set is characterised exactly, which is what
makes the outer-loop step provable: a statement is visited iff an already processed position carries its key.
"""
from pyvc.api import *
from contracts import shexing as SX
from contracts.shexing import Statement, MCT, ASS, MC, DISTINCT, IN

CSL = "candidate_statements"
def KEY(a, b): return "(%s._st_property == %s._st_property and some(%s._st_type) == some(%s._st_type))" % (a, b, a, b)
def BOUND(j, lst): return "0 <= %s and %s < len(%s)" % (j, j, lst)

INPUT_OK = "forall(Int, lambda j: implies(%s, has_class(at(%s, j), 'Statement') and at(%s, j)._serializer_object is not None))" % (BOUND("j", CSL), CSL, CSL)
# (E1) every result is one of the candidates
MEMBER = "forall(Int, lambda q: implies(0 <= q and q < len({res}), exists(Int, lambda m: 0 <= m and m < len(%s) and at(%s, m) == at({res}, q))))" % (CSL, CSL)
# (E2) the key of every candidate below {upto} is present in the result
COVERED = "forall(Int, lambda j: implies(0 <= j and j < {upto}, exists(Int, lambda q: 0 <= q and q < len({res}) and %s)))" % KEY("at({res}, q)", "at(%s, j)" % CSL)
# (E3) one statement per key
ONE_PER_KEY = "forall(Int, Int, lambda a, b: implies(0 <= a and a < b and b < len({res}), not %s))" % KEY("at({res}, a)", "at({res}, b)")
# result keys come from the processed prefix
FROM_PREFIX = "forall(Int, lambda q: implies(0 <= q and q < len({res}), exists(Int, lambda m: 0 <= m and m < {upto} and %s)))" % KEY("at({res}, q)", "at(%s, m)" % CSL)
# exact characterisation of the visited set on candidates
VISITED = ("forall(Int, lambda j: implies(%s, (at(%s, j) in already_visited) == exists(Int, lambda m: 0 <= m and m < {upto} and %s)))"
           % (BOUND("j", CSL), CSL, KEY("at(%s, m)" % CSL, "at(%s, j)" % CSL)))
FIGURES = ["heap_eq('Statement._cardinality')", "heap_eq('Statement._probability')", "heap_eq('Statement._n_occurences')",
           "heap_eq('Statement._st_type')", "heap_eq('Statement._st_property')", "heap_eq('Statement._serializer_object')",
           "heap_eq('Statement._is_inverse')"]
GRP = "group_to_decide"
GCS = GRP + "._constraints"
INNER = [
    # the group under construction: the representative first, then members with its key, all of them candidates
    "len(%s) >= 1" % GCS, "at(%s, 0) == a_statement" % GCS,
    "forall(Int, lambda g: implies(0 <= g and g < len(%s), %s and exists(Int, lambda m: 0 <= m and m < len(%s) and at(%s, m) == at(%s, g))))"
    % (GCS, KEY("at(%s, g)" % GCS, "a_statement"), CSL, CSL, GCS),
    "%s._shape_constraints is not None" % GRP,
    "forall(Int, lambda g: implies(0 <= g and g < len(some(%s._shape_constraints)), has_class(at(some(%s._shape_constraints), g), 'Statement')))" % (GRP, GRP),
    # visited: everything visited before the inner loop, plus the candidates in (i, i+1+_i1) with the representative's key
    "forall(Int, lambda j: implies(%s, (at(%s, j) in already_visited) == (exists(Int, lambda m: 0 <= m and m < _i0 and %s) or j == _i0 or (_i0 < j and j < _i0 + 1 + _i1 and %s))))"
    % (BOUND("j", CSL), CSL, KEY("at(%s, m)" % CSL, "at(%s, j)" % CSL), KEY("at(%s, j)" % CSL, "a_statement")),
    "a_statement == at(%s, _i0)" % CSL, "i == _i0",
] + FIGURES

contract(ASS + "._group_constraints_with_same_prop_and_obj", params={CSL: List(Statement)}, returns=List(Statement),
    requires=[DISTINCT.format(CSL), INPUT_OK],
    ensures=[MEMBER.format(res="result"), COVERED.format(res="result", upto="len(%s)" % CSL), ONE_PER_KEY.format(res="result")] + FIGURES,
    raises=[], modifies=["Statement._comments", "alloc"],
    ghost={"__locals__": {"result": List(Statement), "already_visited": Set(Statement)}},
    loops={0: {"invariant": [MEMBER.format(res="result"), COVERED.format(res="result", upto="_i0"), ONE_PER_KEY.format(res="result"),
                             FROM_PREFIX.format(res="result", upto="_i0"), VISITED.format(upto="_i0")] + FIGURES},
           1: {"invariant": INNER}},
    props=["C02", "C12", "C09", "C03"],
    note="one statement per (property, kind) key of the candidates, each a member of the input: nothing lost, duplicated or invented (outer + inner loop invariants, exact visited set)")

# =====================================================================================================================================
# stage 2: the non-literal kinds (IRI / BNode / shape references) of one property collapse to ONE constraint; literals and the
# instantiation property pass through untouched
# =====================================================================================================================================
from contracts.shexing import MC_INV, SerFactory, NSD
G2 = "mergeable_constraints"
def MCINV_OF(g): return [x.replace("self.", g + ".") for x in MC_INV]
def NODEK(e): return "(some(%s._st_type) == 'IRI' or some(%s._st_type) == 'BNode' or some(%s._st_type).startswith('%%'))" % (e, e, e)
L = "all_original_statements"
T0 = "target_index_original_statements"
LEAD = "at(%s, %s - 1)" % (L, T0)
def L_OK(lst):
    return ["forall(Int, lambda j: implies(%s, has_class(at(%s, j), 'Statement') and at(%s, j)._serializer_object is not None and at(%s, j)._is_inverse == at(%s, 0)._is_inverse))"
            % (BOUND("j", lst), lst, lst, lst, lst),
            "forall(Int, Int, lambda a, b: implies(0 <= a and a < b and b < len(%s), at(%s, a) != at(%s, b) and not %s))" % (lst, lst, lst, KEY("at(%s, a)" % lst, "at(%s, b)" % lst))]
def SAMEPROP(e, lead): return "(%s._st_property == %s._st_property)" % (e, lead)
GC2 = G2 + "._constraints"
MEMBERS2 = ("forall(Int, lambda q: implies(0 <= q and q < len(%s), exists(Int, lambda m: %s - 1 <= m and m < {upto} and at(%s, q) == at(%s, m) and %s and %s)))"
            % (GC2, T0, GC2, L, NODEK("at(%s, m)" % L), SAMEPROP("at(%s, m)" % L, LEAD)))
COMPLETE2 = ("forall(Int, lambda m: implies(%s <= m and m < {upto} and %s and %s, at(%s, m) in already_visited and exists(Int, lambda q: 0 <= q and q < len(%s) and at(%s, q) == at(%s, m))))"
             % (T0, NODEK("at(%s, m)" % L), SAMEPROP("at(%s, m)" % L, LEAD), L, GC2, GC2, L))
VISITED2 = ("forall(Statement, lambda x: (x in already_visited) == ((x in old(already_visited)) or exists(Int, lambda m: %s <= m and m < {upto} and at(%s, m) == x and %s and %s)))"
            % (T0, L, NODEK("at(%s, m)" % L), SAMEPROP("at(%s, m)" % L, LEAD)))
SAMEKEY2 = "forall(Int, lambda q: implies(0 <= q and q < len(%s), at(%s, q)._st_property == at(%s, 0)._st_property and at(%s, q)._is_inverse == at(%s, 0)._is_inverse))" % ((GC2,) * 5)
FACT2 = ["%s._statement_serializer_factory == old(%s._statement_serializer_factory)" % (G2, G2), "%s._namespaces_dict == old(%s._namespaces_dict)" % (G2, G2)]
FIND_PARAMS = {G2: MCT, "already_visited": Set(Statement), L: List(Statement), T0: Int}
FIND_PRE = (["1 <= %s and %s <= len(%s)" % (T0, T0, L)] + L_OK(L) + MCINV_OF(G2) +
            ["len(%s) == 1" % GC2, "at(%s, 0) == %s" % (GC2, LEAD), NODEK(LEAD)])
FIND_POST = (MCINV_OF(G2) + ["len(%s) >= 1" % GC2, "at(%s, 0) == %s" % (GC2, LEAD), MEMBERS2.format(upto="len(%s)" % L),
                             COMPLETE2.format(upto="len(%s)" % L), VISITED2.format(upto="len(%s)" % L), SAMEKEY2] + FACT2)
contract(ASS + "._find_all_candidates_to_merge_swapped_constraints_at_node_level", params=FIND_PARAMS, mutates=["already_visited"],
    requires=FIND_PRE, ensures=FIND_POST, raises=[],
    modifies=["MC._constraints[%s]" % G2, "MC._bnode_constraint[%s]" % G2, "MC._iri_constraint[%s]" % G2, "MC._shape_constraints[%s]" % G2],
    loops={0: {"invariant": MCINV_OF(G2) + ["len(%s) >= 1" % GC2, "at(%s, 0) == %s" % (GC2, LEAD), MEMBERS2.format(upto="%s + _i0" % T0),
                                            COMPLETE2.format(upto="%s + _i0" % T0), VISITED2.format(upto="%s + _i0" % T0), SAMEKEY2] + FACT2}},
    props=["C02", "C12", "C03"],
    note="the group of one property: exactly the later candidates with that property and a non-literal kind join it (and are marked visited); the representation invariant of the group is kept")

GM = "group_to_merge"
GMC = GM + "._constraints"
MERGE_PRE = (MCINV_OF(GM) + ["len(%s) >= 1" % GMC, "%s._statement_serializer_factory is not None" % GM, "%s._namespaces_dict is not None" % GM,
                             "forall(Int, lambda q: implies(0 <= q and q < len(%s), at(%s, q)._st_property == at(%s, 0)._st_property and at(%s, q)._is_inverse == at(%s, 0)._is_inverse))" % ((GMC,) * 5)])
contract(ASS + "._merge_swapped_constraints_at_node_level", params={GM: MCT}, returns=Statement,
    requires=MERGE_PRE,
    ensures=["result._st_property == old(at(%s, 0)._st_property)" % GMC,
             "(exists(Int, lambda q: 0 <= q and q < len(old(%s)) and at(old(%s), q) == result) or fresh_obj(result))" % (GMC, GMC)],
    raises=[], modifies=["MC._dominant_constraint[%s]" % GM, "MC._constraints[%s]" % GM, "MC._shape_constraints[%s]" % GM, "MC._disable_or[%s]" % GM,
                         "MC._redundant_or_enabled[%s]" % GM, "alloc", "Statement._comments"],
    props=["C02", "C12", "C03"], note="one constraint for the property: a member of the group or a statement created by the merge")

FM_PARAMS = {G2: MCT, "already_visited": Set(Statement), L: List(Statement), T0: Int}
RES_FROM_GROUP = ("(exists(Int, lambda m: %s - 1 <= m and m < len(%s) and at(%s, m) == result and %s and %s) or fresh_obj(result))"
                  % (T0, L, L, NODEK("at(%s, m)" % L), SAMEPROP("at(%s, m)" % L, LEAD)))
VISITED_FM = ("forall(Statement, lambda x: (x in already_visited) == ((x in old(already_visited)) or exists(Int, lambda m: %s <= m and m < len(%s) and at(%s, m) == x and %s and %s)))"
              % (T0, L, L, NODEK("at(%s, m)" % L), SAMEPROP("at(%s, m)" % L, LEAD)))
contract(ASS + "._find_and_merge_potentially_swapped_constraints", params=FM_PARAMS, mutates=["already_visited"], returns=Statement,
    requires=FIND_PRE + ["%s._statement_serializer_factory is not None" % G2, "%s._namespaces_dict is not None" % G2],
    ensures=["result._st_property == old(%s._st_property)" % LEAD, RES_FROM_GROUP, VISITED_FM],
    raises=[], modifies=["MC._constraints[%s]" % G2, "MC._bnode_constraint[%s]" % G2, "MC._iri_constraint[%s]" % G2, "MC._shape_constraints[%s]" % G2,
                         "MC._dominant_constraint[%s]" % G2, "MC._disable_or[%s]" % G2, "MC._redundant_or_enabled[%s]" % G2, "alloc", "Statement._comments"],
    props=["C02", "C12", "C03"], note="search + merge: the constraint returned stands for the property of the leading candidate and is a candidate of that property or a new statement")


# =====================================================================================================================================
# empty-shape removal (C05: every reference resolves after shapes were removed; C02: nothing else is lost): the two filters and the detection
# =====================================================================================================================================
from contracts.shexing import Shape, Kind
OS = "original_statements"
NAMES = "shape_names_to_remove"
contract(ASS + "._statements_without_shapes_to_remove", params={OS: List(Statement), NAMES: Set(Kind)}, returns=List(Statement),
    requires=["forall(Int, lambda j: implies(%s, has_class(at(%s, j), 'Statement')))" % (BOUND("j", OS), OS)],
    ensures=[# only statements of the input, none of them pointing to a removed shape ...
             "forall(Int, lambda q: implies(0 <= q and q < len(result), not (some(at(result, q)._st_type) in %s) and exists(Int, lambda j: %s and at(%s, j) == at(result, q))))" % (NAMES, BOUND("j", OS), OS),
             # ... and every other statement is kept
             "forall(Int, lambda j: implies(%s and not (some(at(%s, j)._st_type) in %s), exists(Int, lambda q: 0 <= q and q < len(result) and at(result, q) == at(%s, j))))" % (BOUND("j", OS), OS, NAMES, OS),
             "len(result) <= len(%s)" % OS],
    raises=[], modifies=[],
    ghost={"__locals__": {"new_statements": List(Statement)}},
    loops={0: {"invariant": [
        "forall(Int, lambda q: implies(0 <= q and q < len(new_statements), not (some(at(new_statements, q)._st_type) in %s) and exists(Int, lambda j: 0 <= j and j < _i0 and at(%s, j) == at(new_statements, q))))" % (NAMES, OS),
        "forall(Int, lambda j: implies(0 <= j and j < _i0 and not (some(at(%s, j)._st_type) in %s), exists(Int, lambda q: 0 <= q and q < len(new_statements) and at(new_statements, q) == at(%s, j))))" % (OS, NAMES, OS),
        "len(new_statements) <= _i0", "list_eq(_seq0, %s)" % OS]}},
    props=["C05", "C02", "C12"],
    note="statements that point to a removed shape are dropped, every other statement is kept: no dangling reference survives the filter, nothing else is lost")

CSX = "shexer.core.shexing.class_shexer:ClassShexer"
ClassShexerT = schema("ClassShexer", [CSX], {"_shapes_list": List(Shape), "_remove_empty_shapes": Bool}, register=False)
SHL_ = "self._shapes_list"
contract(CSX + "._detect_shapes_to_remove", params={}, returns=Set(Kind), self_type=ClassShexerT,
    ensures=["forall(Kind, lambda k: (k in result) == exists(Int, lambda j: %s and at(%s, j)._name == k and len(at(%s, j)._statements) == 0))" % (BOUND("j", SHL_), SHL_, SHL_)],
    raises=[], modifies=[], ghost={"__locals__": {"result": Set(Kind)}},
    loops={0: {"invariant": ["forall(Kind, lambda k: (k in result) == exists(Int, lambda j: 0 <= j and j < _i0 and at(%s, j)._name == k and len(at(%s, j)._statements) == 0))" % (SHL_, SHL_),
                             "list_eq(_seq0, %s)" % SHL_]}},
    props=["C05", "C02"], note="the shapes to remove are exactly the names of the shapes without any statement")
contract(CSX + "._remove_shapes_without_statements", params={NAMES: Set(Kind)}, self_type=ClassShexerT,
    ensures=["forall(Int, lambda q: implies(%s, not (at(%s, q)._name in %s) and exists(Int, lambda j: 0 <= j and j < len(old(%s)) and at(old(%s), j) == at(%s, q))))" % (BOUND("q", SHL_), SHL_, NAMES, SHL_, SHL_, SHL_),
             "forall(Int, lambda j: implies(0 <= j and j < len(old(%s)) and not (at(old(%s), j)._name in %s), exists(Int, lambda q: %s and at(%s, q) == at(old(%s), j))))" % (SHL_, SHL_, NAMES, BOUND("q", SHL_), SHL_, SHL_)],
    raises=[], modifies=["ClassShexer._shapes_list[self]"], ghost={"__locals__": {"new_shape_list": List(Shape)}},
    loops={0: {"invariant": [
        "forall(Int, lambda q: implies(0 <= q and q < len(new_shape_list), not (at(new_shape_list, q)._name in %s) and exists(Int, lambda j: 0 <= j and j < _i0 and at(%s, j) == at(new_shape_list, q))))" % (NAMES, SHL_),
        "forall(Int, lambda j: implies(0 <= j and j < _i0 and not (at(%s, j)._name in %s), exists(Int, lambda q: 0 <= q and q < len(new_shape_list) and at(new_shape_list, q) == at(%s, j))))" % (SHL_, NAMES, SHL_),
        "list_eq(_seq0, %s)" % SHL_, "%s == old(%s)" % (SHL_, SHL_)]}},
    props=["C05", "C02"], note="exactly the shapes whose name is listed are dropped; every other shape is kept")

# ---- termination of empty-shape removal: every round removes at least one shape ---------------------------------------------------------
_rm = CONTRACTS[CSX + "._remove_shapes_without_statements"]
ANY_LISTED = "exists(Int, lambda j: 0 <= j and j < {upto} and at({lst}, j)._name in %s)" % NAMES
_rm.ensures += ["len(%s) <= len(old(%s))" % (SHL_, SHL_),
                "implies(%s, len(%s) < len(old(%s)))" % (ANY_LISTED.format(upto="len(old(%s))" % SHL_, lst="old(%s)" % SHL_), SHL_, SHL_)]
_rm.loops[0]["invariant"] += ["len(new_shape_list) <= _i0",
                              "implies(%s, len(new_shape_list) < _i0)" % ANY_LISTED.format(upto="_i0", lst=SHL_)]
contract(CSX + "._remove_statements_to_gone_shapes", params={NAMES: Set(Kind)}, self_type=ClassShexerT,
    ensures=[], raises=[], modifies=["Shape._statements"], assume_only=True, verify=False, props=["C05", "C02"],
    note="ASSUMED here (dispatch into the strategy objects, Shape property setters with comprehensions): only the statement lists of shapes are rewritten; "
         "the filter it applies is _statements_without_shapes_to_remove (verified above); exercised by bounded/schemas.py and bounded/pipeline.py")
DETECTED = "forall(Kind, lambda k: (k in {s}) == exists(Int, lambda j: %s and at(%s, j)._name == k and len(at(%s, j)._statements) == 0))" % (BOUND("j", SHL_), SHL_, SHL_)
contract(CSX + "._iteration_remove_empty_shapes", params={NAMES: Set(Kind)}, self_type=ClassShexerT,
    ensures=["len(%s) <= len(old(%s))" % (SHL_, SHL_),
             "implies(%s, len(%s) < len(old(%s)))" % (ANY_LISTED.format(upto="len(old(%s))" % SHL_, lst="old(%s)" % SHL_), SHL_, SHL_)],
    raises=[], modifies=["ClassShexer._shapes_list[self]", "Shape._statements"], props=["C05", "C02", "C04"])
contract(CSX + "._clean_empty_shapes", params={}, self_type=ClassShexerT,
    ensures=["implies(self._remove_empty_shapes, forall(Int, lambda j: implies(%s, len(at(%s, j)._statements) != 0)))" % (BOUND("j", SHL_), SHL_),
             "implies(not self._remove_empty_shapes, %s == old(%s))" % (SHL_, SHL_)],
    raises=[], modifies=["ClassShexer._shapes_list[self]", "Shape._statements"],
    ghost={"__locals__": {"shapes_to_remove": Set(Kind)}},
    loops={0: {"invariant": [DETECTED.format(s="shapes_to_remove"), "self._remove_empty_shapes"], "decreases": "len(%s)" % SHL_}},
    props=["C05", "C02", "C04"],
    note="empty-shape removal TERMINATES (every round removes at least one shape: decreases len(shapes)) and ends with no shape without statements")

