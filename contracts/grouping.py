"""C02 / C12 / C09 / C03 - the two O(n^2) grouping loops of the selection stage, with loop invariants.

_group_constraints_with_same_prop_and_obj: the candidates of one direction of one shape are partitioned by their key
(property, kind); the result holds exactly one statement per key of the input, and that statement is a member of the input
("all and only": nothing lost, nothing duplicated, nothing invented).  The visited set is characterised exactly, which is what
makes the outer-loop step provable: a statement is visited iff an already processed position carries its key.
"""
from pyvc.api import *
from contracts import shexing as SX
from contracts.shexing import Statement, MCT, ASS, MC, DISTINCT, IN

CSL = "candidate_statements"
def KEY(a, b): return "(%s._st_property == %s._st_property and some(%s._st_type) == some(%s._st_type))" % (a, b, a, b)
def BOUND(j, lst): return "0 <= %s and %s < len(%s)" % (j, j, lst)

INPUT_OK = "forall(Int, lambda j: implies(%s, has_class(at(%s, j), 'Statement') and at(%s, j)._serializer_object is not None))" % (BOUND("j", CSL), CSL, CSL)
# (E1) every result is one of the candidates
MEMBER = "forall(Int, lambda q: implies(0 <= q and q < len({res}), exists(Int, lambda m: 0 <= m and m < len(%s) and at(%s, m) == at({res}, q))))" % (CSL, CSL)
# (E2) the key of every candidate below {upto} is present in the result
COVERED = "forall(Int, lambda j: implies(0 <= j and j < {upto}, exists(Int, lambda q: 0 <= q and q < len({res}) and %s)))" % KEY("at({res}, q)", "at(%s, j)" % CSL)
# (E3) one statement per key
ONE_PER_KEY = "forall(Int, Int, lambda a, b: implies(0 <= a and a < b and b < len({res}), not %s))" % KEY("at({res}, a)", "at({res}, b)")
# result keys come from the processed prefix
FROM_PREFIX = "forall(Int, lambda q: implies(0 <= q and q < len({res}), exists(Int, lambda m: 0 <= m and m < {upto} and %s)))" % KEY("at({res}, q)", "at(%s, m)" % CSL)
# exact characterisation of the visited set on candidates
VISITED = ("forall(Int, lambda j: implies(%s, (at(%s, j) in already_visited) == exists(Int, lambda m: 0 <= m and m < {upto} and %s)))"
           % (BOUND("j", CSL), CSL, KEY("at(%s, m)" % CSL, "at(%s, j)" % CSL)))
FIGURES = ["heap_eq('Statement._cardinality')", "heap_eq('Statement._probability')", "heap_eq('Statement._n_occurences')",
           "heap_eq('Statement._st_type')", "heap_eq('Statement._st_property')", "heap_eq('Statement._serializer_object')",
           "heap_eq('Statement._is_inverse')"]
GRP = "group_to_decide"
GCS = GRP + "._constraints"
INNER = [
    # the group under construction: the representative first, then members with its key, all of them candidates
    "len(%s) >= 1" % GCS, "at(%s, 0) == a_statement" % GCS,
    "forall(Int, lambda g: implies(0 <= g and g < len(%s), %s and exists(Int, lambda m: 0 <= m and m < len(%s) and at(%s, m) == at(%s, g))))"
    % (GCS, KEY("at(%s, g)" % GCS, "a_statement"), CSL, CSL, GCS),
    "%s._shape_constraints is not None" % GRP,
    "forall(Int, lambda g: implies(0 <= g and g < len(some(%s._shape_constraints)), has_class(at(some(%s._shape_constraints), g), 'Statement')))" % (GRP, GRP),
    # visited: everything visited before the inner loop, plus the candidates in (i, i+1+_i1) with the representative's key
    "forall(Int, lambda j: implies(%s, (at(%s, j) in already_visited) == (exists(Int, lambda m: 0 <= m and m < _i0 and %s) or j == _i0 or (_i0 < j and j < _i0 + 1 + _i1 and %s))))"
    % (BOUND("j", CSL), CSL, KEY("at(%s, m)" % CSL, "at(%s, j)" % CSL), KEY("at(%s, j)" % CSL, "a_statement")),
    "a_statement == at(%s, _i0)" % CSL, "i == _i0",
] + FIGURES

contract(ASS + "._group_constraints_with_same_prop_and_obj", params={CSL: List(Statement)}, returns=List(Statement),
    requires=[DISTINCT.format(CSL), INPUT_OK],
    ensures=[MEMBER.format(res="result"), COVERED.format(res="result", upto="len(%s)" % CSL), ONE_PER_KEY.format(res="result")] + FIGURES,
    raises=[], modifies=["Statement._comments", "alloc"],
    ghost={"__locals__": {"result": List(Statement), "already_visited": Set(Statement)}},
    loops={0: {"invariant": [MEMBER.format(res="result"), COVERED.format(res="result", upto="_i0"), ONE_PER_KEY.format(res="result"),
                             FROM_PREFIX.format(res="result", upto="_i0"), VISITED.format(upto="_i0")] + FIGURES},
           1: {"invariant": INNER}},
    props=["C02", "C12", "C09", "C03"],
    note="one statement per (property, kind) key of the candidates, each a member of the input: nothing lost, duplicated or invented (outer + inner loop invariants, exact visited set)")
