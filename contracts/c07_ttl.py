"""C07 - the streaming Turtle reader: token-boundary helpers (strings) and the subject/predicate/object state machine."""
import z3
from pyvc.api import *

TTY = "shexer.io.graph.yielder.big_ttl_triples_yielder:BigTtlTriplesYielder"
TtlY = schema("TtlYielder", [TTY], {"_state": Int, "_tmp_s": Opt(Str), "_tmp_p": Opt(Str), "_tmp_o": Opt(Str), "_base": Opt(Str),
                                    "_prefixes": Dict(Str, Str)})
regex("backslashes", z3.Star(z3.Re("\\")))
regex("blanks", z3.Star(z3.Re(" ")))

contract(TTY + "._find_next_blank", params={"target_str": Str, "start_index": Int}, returns=Int,
    requires=["0 <= start_index and start_index <= len(target_str)"],
    ensures=["start_index <= result and result <= len(target_str)", "' ' not in target_str[start_index:result]",
             "result == len(target_str) or str_at(target_str, result) == ' '"],
    raises=[], props=["C07"],
    note="exclusive end of the token that starts at start_index: the next blank, or the END of the line (not one before it)")
contract(TTY + "._count_prior_backslashes", params={"an_str": Str, "quote_pos": Int}, returns=Int,
    requires=["1 <= quote_pos and quote_pos <= len(an_str)", "str_at(an_str, quote_pos - 1) == '\\\\'"],
    ensures=["1 <= result and result <= old(quote_pos)",
             "in_re(an_str[old(quote_pos) - result:old(quote_pos)], 'backslashes')",                        # a run of backslashes ...
             "result == old(quote_pos) or str_at(an_str, old(quote_pos) - result - 1) != '\\\\'"],          # ... that is maximal
    raises=[],
    loops={0: {"invariant": ["counter >= 1", "counter + quote_pos == old(quote_pos) - 1", "quote_pos >= -1",
                             "in_re(an_str[quote_pos + 1:old(quote_pos)], 'backslashes')"],
               "decreases": "quote_pos + 1"}},
    props=["C07"], note="number of backslashes immediately before a quote (parity decides whether the quote is escaped)")
contract(TTY + "._parse_elem", params={"raw_elem": Str}, returns=Opt(Str), raises=[("ValueError", "?True")], assume_only=True, verify=False,
    note="ASSUMED here: prefix/base expansion of one token (string rewriting; exercised by bounded/readers.py)")
S0, S1, S2, S4 = 0, 1, 2, 4
contract(TTY + "._assing_tmp_element_and_promote_state", params={"token": Str},
    ensures=["implies(old(self._state) == 0, self._state == 1 and self._tmp_p == old(self._tmp_p) and self._tmp_o == old(self._tmp_o))",
             "implies(old(self._state) == 1, self._state == 2 and self._tmp_s == old(self._tmp_s) and self._tmp_o == old(self._tmp_o))",
             "implies(old(self._state) == 2, self._state == 4 and self._tmp_s == old(self._tmp_s) and self._tmp_p == old(self._tmp_p))"],
    raises=[("ValueError", "?True"), ("ValueError", "not (self._state == 0 or self._state == 1 or self._state == 2)")],
    modifies=["TtlYielder._state[self]", "TtlYielder._tmp_s[self]", "TtlYielder._tmp_p[self]", "TtlYielder._tmp_o[self]"], props=["C07"],
    note="statement automaton: subject -> predicate -> object -> (closed); a term arriving in any other state is rejected, the other two slots are kept "
         "(this is what makes ';' and ',' abbreviations and statements spanning several lines work)")
contract(TTY + "._current_triple", params={}, returns=Tup(Opt(Str), Opt(Str), Opt(Str)),
    ensures=["result[0] == self._tmp_s and result[1] == self._tmp_p and result[2] == self._tmp_o"], raises=[], props=["C07"])
contract(TTY + "._find_next_blank@canary", params={"target_str": Str, "start_index": Int}, returns=Int,
    requires=["0 <= start_index and start_index <= len(target_str)"], ensures=["result < len(target_str)"], props=["C07"], canary=True)

# ---- <...> tokens under @base (C07: "IRIs after prefix / base expansion") ----------------------------------------------------------------
CE = "cornered_element"
contract(TTY + "._parse_cornered_element", params={CE: Str}, returns=Str,
    requires=["len(%s) >= 2" % CE, "%s.startswith('<')" % CE, "%s.endswith('>')" % CE],
    ensures=[# no base in force: the token is the IRI
             "implies(self._base is None, result == %s)" % CE,
             # an absolute http / https IRI is never touched by the base (other schemes: open finding F-C07-base-non-http-absolute-iri)
             "implies(%s[1:].startswith('http://') or %s[1:].startswith('https://'), result == %s)" % (CE, CE, CE),
             # a plain relative reference (no leading '/' or '#', not http...) is appended to the base
             "implies(self._base is not None and not %s[1:].startswith('http') and str_at(%s, 1) != '/' and str_at(%s, 1) != '#',"
             " result == '<' + some(self._base) + %s[1:-1] + '>')" % (CE, CE, CE, CE)],
    raises=[], modifies=[], props=["C07", "C08"],
    note="a <...> token: unchanged without @base and for absolute http(s) IRIs, base + reference for a plain relative reference")

# ---- end of a quoted literal: the first quote whose run of preceding backslashes is even ---------------------------------------------------
EVEN_RUN = ("exists(Int, lambda k: k >= 0 and k % 2 == 0 and k <= {r} and in_re(target_str[{r} - k:{r}], 'backslashes')"
            " and (k == {r} or str_at(target_str, {r} - k - 1) != '\\\\'))")
contract(TTY + "._find_next_unescaped_quotes", params={"target_str": Str, "start_index": Int}, returns=Int,
    requires=["1 <= start_index and start_index <= len(target_str)"],
    ensures=["start_index <= result and result < len(target_str)", "str_at(target_str, result) == '\"'", EVEN_RUN.format(r="result")],
    raises=[("ValueError", "?True")],
    loops={0: {"invariant": ["pos == -1 or (start_index <= pos and pos < len(target_str) and str_at(target_str, pos) == '\"')"]}},
    props=["C07"],
    note="the position returned holds a quote that is NOT escaped: the maximal run of backslashes right before it has even length "
         "(uses the contract of _count_prior_backslashes, not its body)")

# ---- progress of the line scanner: every token ends after it starts, so the token loop of a line terminates (C04 / C07) ----------------------
CONTRACTS[TTY + "._find_next_unescaped_quotes"].loops[0]["decreases"] = "ite(pos == -1, 0, len(target_str) - pos)"
contract(TTY + "._find_next_quoted_literal_ending", params={"target_str": Str, "start_index": Int}, returns=Int,
    requires=["0 <= start_index and start_index < len(target_str)"],
    ensures=["start_index < result and result < len(target_str)"],
    raises=[("ValueError", "?True")], props=["C07", "C04"],
    note="the literal token ends strictly after its opening quote and inside the line (closing quote, or the blank that ends its ^^datatype / @lang suffix)")
contract(TTY + "._next_line_token", params={"a_line": Str, "start_index": Int}, returns=Tup(Opt(Str), Opt(Int)),
    requires=["0 <= start_index",
              # a '<' that opens the next token is closed on this line (an IRI never spans lines; on such malformed input the unchanged tree
              # raises IndexError - outside the statement, which speaks about valid documents)
              "forall(Int, lambda i: implies(start_index <= i and i < len(a_line) and str_at(a_line, i) == '<' and in_re(a_line[start_index:i], 'blanks'), '>' in a_line[i:]))"],
    ensures=["(result[0] is None) == (result[1] is None)",
             # progress: the next token is searched strictly after where this one started
             "implies(result[1] is not None, some(result[1]) > start_index)"],
    raises=[("ValueError", "?True")], modifies=[],
    loops={0: {"invariant": ["start_index >= old(start_index)", "start_index <= len(a_line) or start_index == old(start_index)", "in_re(a_line[old(start_index):start_index], 'blanks')"],
               "decreases": "len(a_line) - start_index"}},
    props=["C07", "C04"],
    note="one token of a line: blanks are skipped (terminating), and the position returned for the next search lies strictly after the start "
         "of this token - the measure that makes the token loop of a line terminate")
CONTRACTS[TTY + "._next_line_token"].ensures += ["implies(result[1] is not None, some(result[1]) <= len(a_line) + 1)"]
TripleT = Tup(Opt(Str), Opt(Str), Opt(Str))
contract(TTY + "._process_line_with_potential_triples", params={"a_line": Str}, yields=TripleT,
    # every '<' of the line is closed later on the line (IRIs do not span lines; a literal holding a lone '<' is outside this contract)
    requires=["forall(Int, lambda i: implies(0 <= i and i < len(a_line) and str_at(a_line, i) == '<', '>' in a_line[i:]))"],
    ensures=[], raises=[("ValueError", "?True")],
    modifies=["TtlYielder._state[self]", "TtlYielder._tmp_s[self]", "TtlYielder._tmp_p[self]", "TtlYielder._tmp_o[self]"],
    ghost={"__locals__": {"next_token": Opt(Str), "next_index": Opt(Int)}},
    loops={0: {"invariant": ["(next_token is None) == (next_index is None)",
                             "implies(next_index is not None, 0 <= some(next_index) and some(next_index) <= len(a_line) + 1)"],
               "decreases": "ite(next_index is None, 0, len(a_line) + 2 - some(next_index))"}},
    props=["C07", "C04"],
    note="the token loop of a line TERMINATES on every line (measure: characters left after the last token) - the Turtle counterpart of the N-Triples scanner's termination")
