"""C07 - the streaming Turtle reader: token-boundary helpers (strings) and the subject/predicate/object state machine."""
import z3
from pyvc.api import *

TTY = "shexer.io.graph.yielder.big_ttl_triples_yielder:BigTtlTriplesYielder"
TtlY = schema("TtlYielder", [TTY], {"_state": Int, "_tmp_s": Opt(Str), "_tmp_p": Opt(Str), "_tmp_o": Opt(Str), "_base": Opt(Str),
                                    "_prefixes": Dict(Str, Str)})
regex("backslashes", z3.Star(z3.Re("\\")))

contract(TTY + "._find_next_blank", params={"target_str": Str, "start_index": Int}, returns=Int,
    requires=["0 <= start_index and start_index <= len(target_str)"],
    ensures=["start_index <= result and result <= len(target_str)", "' ' not in target_str[start_index:result]",
             "result == len(target_str) or str_at(target_str, result) == ' '"],
    raises=[], props=["C07"],
    note="exclusive end of the token that starts at start_index: the next blank, or the END of the line (not one before it)")
contract(TTY + "._count_prior_backslashes", params={"an_str": Str, "quote_pos": Int}, returns=Int,
    requires=["1 <= quote_pos and quote_pos <= len(an_str)", "str_at(an_str, quote_pos - 1) == '\\\\'"],
    ensures=["1 <= result and result <= old(quote_pos)",
             "in_re(an_str[old(quote_pos) - result:old(quote_pos)], 'backslashes')",                        # a run of backslashes ...
             "result == old(quote_pos) or str_at(an_str, old(quote_pos) - result - 1) != '\\\\'"],          # ... that is maximal
    raises=[],
    loops={0: {"invariant": ["counter >= 1", "counter + quote_pos == old(quote_pos) - 1", "quote_pos >= -1",
                             "in_re(an_str[quote_pos + 1:old(quote_pos)], 'backslashes')"],
               "decreases": "quote_pos + 1"}},
    props=["C07"], note="number of backslashes immediately before a quote (parity decides whether the quote is escaped)")
contract(TTY + "._parse_elem", params={"raw_elem": Str}, returns=Opt(Str), raises=[("ValueError", "?True")], assume_only=True, verify=False,
    note="ASSUMED here: prefix/base expansion of one token (string rewriting; exercised by bounded/readers.py)")
S0, S1, S2, S4 = 0, 1, 2, 4
contract(TTY + "._assing_tmp_element_and_promote_state", params={"token": Str},
    ensures=["implies(old(self._state) == 0, self._state == 1 and self._tmp_p == old(self._tmp_p) and self._tmp_o == old(self._tmp_o))",
             "implies(old(self._state) == 1, self._state == 2 and self._tmp_s == old(self._tmp_s) and self._tmp_o == old(self._tmp_o))",
             "implies(old(self._state) == 2, self._state == 4 and self._tmp_s == old(self._tmp_s) and self._tmp_p == old(self._tmp_p))"],
    raises=[("ValueError", "?True"), ("ValueError", "not (self._state == 0 or self._state == 1 or self._state == 2)")],
    modifies=["TtlYielder._state[self]", "TtlYielder._tmp_s[self]", "TtlYielder._tmp_p[self]", "TtlYielder._tmp_o[self]"], props=["C07"],
    note="statement automaton: subject -> predicate -> object -> (closed); a term arriving in any other state is rejected, the other two slots are kept "
         "(this is what makes ';' and ',' abbreviations and statements spanning several lines work)")
contract(TTY + "._current_triple", params={}, returns=Tup(Opt(Str), Opt(Str), Opt(Str)),
    ensures=["result[0] == self._tmp_s and result[1] == self._tmp_p and result[2] == self._tmp_o"], raises=[], props=["C07"])
contract(TTY + "._find_next_blank@canary", params={"target_str": Str, "start_index": Int}, returns=Int,
    requires=["0 <= start_index and start_index <= len(target_str)"], ensures=["result < len(target_str)"], props=["C07"], canary=True)
