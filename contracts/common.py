"""Heap layouts (schemas) shared by several properties.  Field types are taken from the constructors in /repo."""
from pyvc.api import *

ST = "shexer.model.statement:Statement"
CHOICE = "shexer.model.fixed_prop_choice_statement:FixedPropChoiceStatement"
BASESER = "shexer.io.shex.formater.statement_serializers.base_statement_serializer:BaseStatementSerializer"
CHOICESER = "shexer.io.shex.formater.statement_serializers.fixed_prop_choice_statement_serializer:FixedPropChoiceStatementSerializer"

def install(kind=Str, prop=Str, text=Str, suffix="", register=True):
    FreqSer = schema("FreqSer" + suffix, [
        "shexer.io.shex.formater.statement_serializers.frequency_strategy.ratio_freq_serializer:RatioFreqSerializer",
        "shexer.io.shex.formater.statement_serializers.frequency_strategy.abs_freq_serializer:AbsFreqSerializer",
        "shexer.io.shex.formater.statement_serializers.frequency_strategy.mixed_frequency_strategy:MixedFrequencyStrategy"],
        {"_decimals": Int, "_abs_strategy": "ignored", "_ratio_strategy": "ignored"}, register=register)
    StSer = schema("StSer" + suffix, [BASESER, CHOICESER],
        {"_instantiation_property_str": Str, "_disable_comments": Bool, "_is_inverse": Bool, "_frequency_serializer": FreqSer}, register=register)
    Statement = schema("Statement" + suffix, [ST, CHOICE],
        {"_st_property": prop, "_st_type": Opt(kind), "_cardinality": Card, "_n_occurences": Int, "_probability": Real,
         "_serializer_object": Opt(StSer), "_comments": List(text), "_is_inverse": Bool, "_st_types": List(Opt(kind))},
        invariant=["implies(has_class(self, 'Statement'), self._st_type is not None)",
                   "implies(is_int(self._cardinality), card_val(self._cardinality) >= 1)"], register=register)
    Shape = schema("Shape" + suffix, ["shexer.model.shape:Shape"],
        {"_name": kind, "_class_uri": kind, "_statements": List(Statement), "_n_instances": Int,
         "_n_direct_statements": Int, "_n_inverse_statements": Int, "_sorting_callback": "ignored"}, register=register)
    return {"FreqSer": FreqSer, "StSer": StSer, "Statement": Statement, "Shape": Shape}
