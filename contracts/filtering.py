"""The acceptance-threshold filter (C02: >= threshold, boundary kept; C12: applied once, on raw candidates; C01: figures of each statement)."""
from pyvc.api import *
from contracts import common
Kind = spectype("Kind", Atom("Kind"))
Text = Atom("Text")
S = common.install(kind=Kind, prop=Kind, text=Text)
Statement, Shape = S["Statement"], S["Shape"]
spectype("Statement", Statement)

DI = "shexer.core.shexing.strategy.direct_and_inverse_shexing_strategy:DirectAndInverseShexingStrategy"
DS = "shexer.core.shexing.strategy.direct_shexing_strategy:DirectShexingStrategy"
CardDict = spectype("CardDict", Dict(Card, Int))
CardList = spectype("CardList", List(Card))
Prof1 = Dict(Kind, Dict(Kind, CardDict))                      # property -> kind -> cardinality -> #instances
ProfBox2 = box("ProfBox2", Dict(Kind, Tup(Prof1, Prof1)))     # class -> (direct, inverse)
ProfBox1 = box("ProfBox1", Dict(Kind, Prof1))
CountsBox = box("CountsBox", Dict(Kind, Int))
# the other configuration attributes of the strategy objects (never written by the filters; declared so that a change that starts reading one
# of them is analysed instead of leaving the verified subset)
_CFG = {"_instantiation_property_str": Kind, "_allow_opt_cardinality": Bool, "_disable_comments": Bool, "_keep_less_specific": Bool,
        "_discard_useless_positive_closures": Bool, "_tolerance": Real, "_disable_or_statements": Bool, "_all_compliant_mode": Bool,
        "_disable_exact_cardinality": Bool, "_allow_redundant_or": Bool}
StratDI = schema("StratDI", [DI], dict({"_class_profile_dict": ProfBox2, "_class_counts_dict": CountsBox, "_shapes_namespace": Kind}, **_CFG), register=False)
StratD = schema("StratD", [DS], dict({"_class_profile_dict": ProfBox1, "_class_counts_dict": CountsBox, "_shapes_namespace": Kind}, **_CFG), register=False)

# number of cardinalities among the first i keys whose frequency reaches the threshold (defined by its recurrence)
specfun("n_pass", [CardList, CardDict, Real, Real, Int], Int,
        axioms=["forall(CardList, CardDict, Real, Real, lambda ks, d, n, t: n_pass(ks, d, n, t, 0) == 0)",
                "forall(CardList, CardDict, Real, Real, Int, lambda ks, d, n, t, i: implies(i >= 0, n_pass(ks, d, n, t, i + 1) == n_pass(ks, d, n, t, i) + ite(to_real(d[ks[i]]) / n >= t, 1, 0)))"])

ASSQ = "shexer.core.shexing.strategy.abstract_shexing_strategy:AbstractShexingStrategy"
if ASSQ + "._compute_frequency" not in CONTRACTS: contract(ASSQ + "._compute_frequency", params={"number_of_instances": Real, "n_ocurrences_statement": Int}, returns=Real,
    requires=["number_of_instances > 0"], ensures=["result == to_real(n_ocurrences_statement) / number_of_instances"], raises=[], verify=False, assume_only=True,
    note="verified under C01 (contracts/shexing.py)")

def build_contract(qual, which, inverse):
    P = "unboxed(self._class_profile_dict)[class_key][%d]" % which
    EACH = ("forall(Int, lambda m: implies({lo} <= m and m < len(result), has_class(result[m], 'Statement') and result[m]._probability >= acceptance_threshold"
            " and result[m]._probability == to_real(result[m]._n_occurences) / number_of_instances and result[m]._is_inverse == %s"
            " and result[m]._st_property in %s and some(result[m]._st_type) in %s[result[m]._st_property]"
            " and result[m]._cardinality in %s[result[m]._st_property][some(result[m]._st_type)]"
            " and result[m]._n_occurences == %s[result[m]._st_property][some(result[m]._st_type)][result[m]._cardinality]))") % (inverse, P, P, P, P)
    contract(qual, params={"acceptance_threshold": Real, "class_key": Kind, "number_of_instances": Real}, returns=List(Statement),
        requires=["class_key in unboxed(self._class_profile_dict)", "number_of_instances > 0"],
        ensures=[EACH.format(lo="0")],
        raises=[], modifies=["alloc"], self_type=StratDI,
        loops={0: {"invariant": [EACH.format(lo="0")]},
               1: {"invariant": [EACH.format(lo="0")]},
               2: {"invariant": [EACH.format(lo="0"),
                                 # ALL and ONLY: one statement per cardinality whose frequency is >= the threshold (boundary kept)
                                 "len(result) == at_loop(2, len(result)) + n_pass(_keys2, %s[a_prop_key][a_type_key], number_of_instances, acceptance_threshold, _i2)" % P]}},
        axioms_of=["n_pass"], props=["C02", "C12", "C01"], ghost={"__locals__": {"result": List(Statement)}},
        note="every candidate with frequency >= threshold becomes a statement carrying exactly its profile figure; nothing below the threshold does")

build_contract(DI + "._build_base_direct_statements", 0, "False")
build_contract(DI + "._build_base_inverse_statements", 1, "True")

# ---- direct-only strategy: the same filter inside the generator of base shapes ----------------------------------------------------------
SHQ = "shexer.model.shape:Shape"
contract(SHQ + "._count_direct_statements", params={"statements": List(Statement)}, returns=Int,
    ensures=["0 <= result and result <= len(statements)"], raises=[],
    loops={0: {"invariant": ["0 <= counter and counter <= _i0"]}}, props=["C02"])
specfun("shape_label", [Kind, Kind], Kind)
contract("shexer.utils.shapes:build_shapes_name_for_class_uri", params={"class_uri": Kind, "shapes_namespace": Kind}, returns=Kind,
    ensures=["result == shape_label(class_uri, shapes_namespace)"], raises=[], assume_only=True, verify=False,
    note="label text: C05 (contracts/c05_tokens.py); here only that it is a function of (class, namespace)")
PD = "unboxed(self._class_profile_dict)"
STMT_OK = ("forall(Int, lambda m: implies(0 <= m and m < len(statements), has_class(statements[m], 'Statement') and statements[m]._probability >= acceptance_threshold"
           " and statements[m]._probability == to_real(statements[m]._n_occurences) / number_of_instances and not statements[m]._is_inverse"
           " and statements[m]._st_property in {P} and some(statements[m]._st_type) in {P}[statements[m]._st_property]"
           " and statements[m]._cardinality in {P}[statements[m]._st_property][some(statements[m]._st_type)]"
           " and statements[m]._n_occurences == {P}[statements[m]._st_property][some(statements[m]._st_type)][statements[m]._cardinality]))").format(P=PD + "[a_class_key]")
SHAPES_OK = ("forall(Int, lambda s: implies(0 <= s and s < len(__yielded__), __yielded__[s]._class_uri in %s and "
             "__yielded__[s]._name == shape_label(__yielded__[s]._class_uri, self._shapes_namespace)))" % PD)
contract(DS + "._yield_base_shapes_direction_aware", params={"acceptance_threshold": Real}, yields=Shape, self_type=StratD,
    requires=["forall(Kind, lambda c: implies(c in %s, c in unboxed(self._class_counts_dict) and unboxed(self._class_counts_dict)[c] > 0))" % PD],
    ensures=["len(result) == _n0",                                   # exactly one shape per class of the profile
             "forall(Int, lambda s: implies(0 <= s and s < len(result), result[s]._class_uri == _keys0[s] and result[s]._name == shape_label(_keys0[s], self._shapes_namespace)"
             " and result[s]._n_instances == unboxed(self._class_counts_dict)[_keys0[s]]))"],
    raises=[], modifies=["alloc"],
    loops={0: {"invariant": ["len(__yielded__) == _i0",
                             "forall(Int, lambda s: implies(0 <= s and s < _i0, __yielded__[s]._class_uri == _keys0[s]))",
                             "forall(Int, lambda s: implies(0 <= s and s < _i0, __yielded__[s]._name == shape_label(_keys0[s], self._shapes_namespace)))",
                             "forall(Int, lambda s: implies(0 <= s and s < _i0, __yielded__[s]._n_instances == unboxed(self._class_counts_dict)[_keys0[s]]))"]},
           1: {"invariant": [STMT_OK, "number_of_instances > 0", "number_of_instances == to_real(unboxed(self._class_counts_dict)[a_class_key])", "a_class_key == _keys0[_i0]"]},
           2: {"invariant": [STMT_OK, "number_of_instances > 0", "number_of_instances == to_real(unboxed(self._class_counts_dict)[a_class_key])", "a_class_key == _keys0[_i0]"]},
           3: {"invariant": [STMT_OK, "number_of_instances > 0", "number_of_instances == to_real(unboxed(self._class_counts_dict)[a_class_key])", "a_class_key == _keys0[_i0]",
                             "len(statements) == at_loop(3, len(statements)) + n_pass(_keys3, %s[a_class_key][a_prop_key][a_type_key], number_of_instances, acceptance_threshold, _i3)" % PD]}},
    axioms_of=["n_pass"], props=["C02", "C12", "C01"], ghost={"__locals__": {"statements": List(Statement)}},
    note="one base shape per class with N(C) = class count; per (property, kind): one statement per cardinality with frequency >= threshold, carrying the profile figure")
