"""Plumbing of the class-profiler factory (C02 / C10): the profiler is told the target classes in their TUNED form - full IRIs without corners,
the spelling under which instances are keyed - whatever spelling the caller used (prefixed name, <IRI>, IRI); the triple yielder and every
switch are handed on under their own name.  Same observation device as contracts/plumbing.py."""
import ast
from pyvc.api import *
from pyvc import extract as X
from contracts.c20_config import PARAM_T, O
from contracts.plumbing import _const_type

F = "shexer.utils.factories."
CPQ = "shexer.core.profiling.class_profiler:ClassProfiler"
GCP = F + "class_profiler_factory:get_class_profiler"
specfun("tuned_classes", [Str, Dict(Str, Str)], Str)          # tune_target_classes_if_needed (its own text: C10)
specfun("reversed_dict", [Dict(Str, Str)], Dict(Str, Str))

def _types(qual, over):
    m, c, fnode = X.find_function(qual)
    names, defaults, vararg, static = X.signature(fnode)
    names = [n for n in names if n != "self"]
    out = {}
    for n in names:
        if n in over: out[n] = over[n]
        elif n in PARAM_T and not (n == "namespaces_dict"): out[n] = PARAM_T[n]
        elif n in defaults: out[n] = _const_type(defaults[n])
        else: out[n] = O
    return names, out

OVER = {"namespaces_dict": Dict(Str, Str), "target_classes_dict": Opt(Int), "source_file": O, "list_of_source_files": O, "instantiation_property_str": Str,
        "url_input": O, "built_remote_graph": Opt(Int), "built_shape_map": Opt(Int), "instantiation_property": Str, "allow_untyped_numbers": Bool,
        "disable_endpoint_cache": Bool, "triples_yielder": Opt(Int), "instances_dict": Opt(Int), "original_target_classes": O, "original_shape_map": Opt(Int),
        "shape_map_format": Str, "shapes_namespace": Str, "input_format": Str}
ynames, ytypes = _types(F + "triple_yielders_factory:get_triple_yielder", OVER)
specfun("yielder_of", [ytypes[n] for n in ynames], Opt(Int))
contract(F + "triple_yielders_factory:get_triple_yielder", params=ytypes, returns=Opt(Int),
    ensures=["result == yielder_of(%s)" % ", ".join(ynames)], raises=[], modifies=[], assume_only=True, verify=False,
    note="observation device: the yielder is a function of exactly the arguments it was given (the readers themselves: C06-C08)")
contract("shexer.utils.target_elements:tune_target_classes_if_needed", params={"list_target_classes": Str, "prefix_namespaces_dict": Dict(Str, Str)}, returns=Str,
    ensures=["result == tuned_classes(list_target_classes, prefix_namespaces_dict)"], raises=[], modifies=[], assume_only=True, verify=False,
    note="ASSUMED here: the tuning function itself (prefix expansion / corner removal per class name)")
contract("shexer.utils.dict:reverse_keys_and_values", params={"target_dict": Dict(Str, Str)}, returns=Dict(Str, Str),
    ensures=["result == reversed_dict(target_dict)"], raises=[], modifies=[], assume_only=True, verify=False, note="dict comprehension")
pnames, ptypes = _types(CPQ + ".__init__", OVER)
Obs = schema("ProfilerObs", [CPQ], {"obs_" + n: ptypes[n] for n in pnames})
contract(CPQ + ".__init__", params=ptypes, ensures=["self.obs_%s == %s" % (n, n) for n in pnames], raises=[],
    modifies=["ProfilerObs.obs_%s[self]" % n for n in pnames], assume_only=True, verify=False,
    note="observation device: records the constructor's arguments (the profiler itself: contracts/profiling.py)")
gnames, gtypes = _types(GCP, OVER)
SAME = [n for n in pnames if n in gnames and n not in ("original_target_classes",)]
contract(GCP, params=gtypes, returns=Obs,
    ensures=["result.obs_original_target_classes == ite(target_classes is None, None, tuned_classes(some(target_classes), reversed_dict(namespaces_dict)))",
             "result.obs_triples_yielder == yielder_of(%s)" % ", ".join(
                 {"source_file": "source_file", "allow_untyped_numbers": "infer_numeric_types_for_untyped_literals", "instantiation_property": "instantiation_property_str",
                  "shape_map_format": "'fsm'"}.get(n, n) for n in ynames),
             "result.obs_instances_dict == target_classes_dict", "result.obs_original_shape_map == built_shape_map"]
            + ["result.obs_%s == %s" % (n, n) for n in SAME],
    raises=[], modifies=["alloc"], props=["C02", "C10"],
    note="the profiler gets the TUNED target classes (instances are keyed by full IRI: an untuned spelling would create a second, empty shape), the yielder built "
         "from the same sources and switches, and every option under its own name")
