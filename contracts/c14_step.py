"""C14 - one triple through the inverse strategy: the subject's OUTGOING counters change exactly as in the direct strategy, the object's INCOMING
counters change as the mirror image, and nothing else changes.  Composition of the relevance test with the two verified counting steps."""
from pyvc.api import *
from contracts.profiling import *
from contracts.profiling import (AFDS, IRFS, Strat2, ID, ID2, PK, PI, SK, OKEY2, SKEY2, STEP2_PRE, COUNT_STEP, F_NEW, F_OLD, G_NEW, G_OLD, get0,
                                 TYPE_S, IS_SHAPE_OF_S, SCLS, Name, Triple, IS_PROP, SUBJ_NODE, OBJ_NODE, Feat)
assert ID == ID2

def _clone(method, extra, props):
    src = CONTRACTS[AFDS + "." + method]
    inv = {k: {"invariant": list(v["invariant"]) + extra} for k, v in src.loops.items()}
    contract(IRFS + "." + method, params=dict(src.params), self_type=Strat2, requires=list(src.requires), ensures=list(src.ensures) + extra, raises=[],
             modifies=["IBox2.val[self._i_dict]"], loops=inv, props=props,
             note="the inherited direct-counting code verified against the 3-component entries of the inverse strategy: incoming counters untouched")
_clone("_introduce_needed_elements_in_shape_instances_dict_for_subj", ["%s[str_subj][2] == old(%s[str_subj][2])" % (ID2, ID2)], ["C14"])
_clone("_annotate_target_subject", ["%s[%s][2] == old(%s[%s][2])" % (ID2, SK, ID2, SK), "%s in %s" % (SK, ID2)], ["C14"])

REL_S = "old(%s and %s in %s)" % (SUBJ_NODE, SKEY2, ID2)
REL_O = "old(%s and %s in %s)" % (OBJ_NODE, OKEY2, ID2)
COUNT_STEP_INV = ("forall(Name, lambda k: %s == old(%s) + ite(k == %s, 1, 0) + ite(%s, 1, 0))"
                  % (get0(G_NEW, PK, "k"), get0("%s[%s][2]" % (ID2, OKEY2), PK, "k"), TYPE_S, IS_SHAPE_OF_S))
PRE = [r for r in STEP2_PRE if r != "%s in %s" % (SK, ID)] + \
      ["implies(%s == %s, %s != 'IRI' and %s != 'BNode')" % (PK, PI, SKEY2, SKEY2),
       "implies(%s in %s, forall(Int, Int, lambda j1, j2: implies(0 <= j1 and j1 < j2 and j2 < len(%s), shape_name_of(%s[j1]) != shape_name_of(%s[j2]))))" % (SKEY2, ID2, SCLS, SCLS, SCLS)]
contract(IRFS + "._annotate_triple_features_no_examples", params={"a_triple": Triple}, self_type=Strat2,
    requires=PRE,
    ensures=[
        # outgoing counters: exactly the direct strategy's step on the subject, if the subject is a tracked node; otherwise none moves
        "implies(%s, %s)" % (REL_S, COUNT_STEP), "implies(%s, same_except(%s, %s, %s))" % (REL_S, F_NEW, F_OLD, PK),
        "forall(Name, lambda n: implies(n in %s and not (%s and n == %s), %s[n][1] == old(%s[n][1])))" % (ID2, REL_S, SKEY2, ID2, ID2),
        # incoming counters: the mirror step on the object, if the object is a tracked NODE (a literal never is); otherwise none moves
        "implies(%s, %s)" % (REL_O, COUNT_STEP_INV), "implies(%s, same_except(%s, %s, %s))" % (REL_O, G_NEW, G_OLD, PK),
        "forall(Name, lambda n: implies(n in %s and not (%s and n == %s), %s[n][2] == old(%s[n][2])))" % (ID2, REL_O, OKEY2, ID2, ID2),
        # classes and the set of tracked nodes never change in pass 2
        "forall(Name, lambda n: (n in %s) == old(n in %s))" % (ID2, ID2),
        "forall(Name, lambda n: implies(n in %s, %s[n][0] == old(%s[n][0])))" % (ID2, ID2, ID2)],
    raises=[], modifies=["IBox2.val[self._i_dict]"], props=["C14", "C01"],
    note="per-triple step of the inverse strategy = direct step on the subject (if tracked) + mirror step on the object (if a tracked node), frames over the whole view")
