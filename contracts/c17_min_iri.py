"""C17 - IRI stems come from the data: longest_common_prefix, the fold over instances, the cut back to a separator."""
from pyvc.api import *

contract("shexer.utils.uri:longest_common_prefix",
    params={"uri1": Str, "uri2": Str}, returns=Str,
    ensures=["uri1.startswith(result) and uri2.startswith(result)",
             "len(result) == len(uri1) or len(result) == len(uri2) or str_at(uri1, len(result)) != str_at(uri2, len(result))"],
    raises=[],
    loops={0: {"invariant": ["uri1[:_i0] == uri2[:_i0]"]}},
    props=["C17", "C08", "C09", "C19"], note="result is a common prefix and cannot be extended (maximality)")
contract("shexer.utils.uri:longest_common_prefix@canary",
    params={"uri1": Str, "uri2": Str}, returns=Str,
    ensures=["result == uri1 or result == uri2 or len(result) == 0"],
    loops={0: {"invariant": ["uri1[:_i0] == uri2[:_i0]"]}}, props=["C17"], canary=True)

# ---- the fold step over instances -------------------------------------------------------------------------------
SEFD = schema("SEFD", ["shexer.utils.structures.dicts:ShapeExampleFeaturesDict"],
              {"_base_dict": Dict(Str, Rec(Opt(Str), Opt(Str), Dict(Str, Str))), "_track_inverse_features": Bool})
CP = schema("ClassProfiler", ["shexer.core.profiling.class_profiler:ClassProfiler"], {"_shape_feature_examples": SEFD})

BD = "self._shape_feature_examples._base_dict"
contract("shexer.core.profiling.class_profiler:ClassProfiler._update_shape_min_iri",
    params={"target_shape": Str, "instance_iri": Str},
    requires=["target_shape in %s" % BD, "%s[target_shape][0] is not None" % BD],
    ensures=[
        # first instance seen: the stem is that instance's IRI
        "implies(old(%s[target_shape][0]) == '%%', %s[target_shape][0] == instance_iri)" % (BD, BD),
        # otherwise: a common prefix of the new instance and of the previous stem (hence of all earlier instances) ...
        "implies(old(%s[target_shape][0]) != '%%', instance_iri.startswith(some(%s[target_shape][0])) and some(old(%s[target_shape][0])).startswith(some(%s[target_shape][0])))" % (BD, BD, BD, BD),
        # ... that cannot be extended
        "implies(old(%s[target_shape][0]) != '%%', len(some(%s[target_shape][0])) == len(instance_iri) or len(some(%s[target_shape][0])) == len(some(old(%s[target_shape][0])))"
        " or str_at(instance_iri, len(some(%s[target_shape][0]))) != str_at(some(old(%s[target_shape][0])), len(some(%s[target_shape][0]))))" % ((BD,) * 7),
        "%s[target_shape][0] is not None" % BD,
        # frame over the whole view: same shapes, other shapes untouched, example and constraint examples of this shape untouched
        "forall(Str, lambda k: (k in %s) == (k in old(%s)))" % (BD, BD),
        "forall(Str, lambda k: implies(k != target_shape, select_eq(%s, old(%s), k)))" % (BD, BD),
        "%s[target_shape][1] == old(%s[target_shape][1])" % (BD, BD),
    ],
    raises=[], modifies=["SEFD._base_dict[self._shape_feature_examples]"], props=["C17"],
    note="one step of the longest-common-prefix fold; uses the contract (not the body) of longest_common_prefix")
CONTRACTS["shexer.core.profiling.class_profiler:ClassProfiler._update_shape_min_iri"].props = ["C17", "C08", "C09", "C19"]

lemma("lcp_fold_keeps_earlier_instances", {"earlier": Str, "prev": Str, "new": Str},
      hyps=["earlier.startswith(prev)", "prev.startswith(new)"], goal="earlier.startswith(new)", props=["C17"],
      note="with the step contract: every instance seen before stays covered by the new stem (induction over the instance loop is then pure logic)")
