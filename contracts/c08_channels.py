"""C08 - delivery channels: which line reader serves which (source, compression) combination."""
from pyvc.api import *

BTY = "shexer.io.graph.yielder.base_triples_yielder:BaseTriplesYielder"
LR = "shexer.io.line_reader."
READERS = [LR + "file_line_reader:FileLineReader", LR + "raw_string_line_reader:RawStringLineReader", LR + "gz_line_reader:GzFileLineReader",
           LR + "zip_file_line_reader:ZipFileLineReader", LR + "xz_line_reader:XzFileLineReader"]
ZipArch = Atom("ZipArchive")
Reader = schema("LineReader", READERS, {"_source_file": Opt(Str), "_raw_string": Opt(Str), "_gz_file": Opt(Str), "_zip_archive": Opt(ZipArch),
                                        "_zip_target": Opt(Str), "_xz_file": Opt(Str)})
Yielder = schema("AnyYielder", [BTY], {})
contract("shexer.utils.obj_references:check_just_one_not_none", params={}, inline=True, verify=False)
O = Opt(Str)
contract(BTY + "._decide_line_reader", params={"raw_graph": O, "source_file": O, "compression_mode": O, "zip_base_archive": Opt(ZipArch)}, returns=Reader,
    ensures=["implies(raw_graph is not None, has_class(result, 'RawStringLineReader') and result._raw_string == raw_graph)",
             "implies(raw_graph is None and compression_mode is None, has_class(result, 'FileLineReader') and result._source_file == source_file)",
             "implies(raw_graph is None and compression_mode == 'gz', has_class(result, 'GzFileLineReader') and result._gz_file == source_file)",
             "implies(raw_graph is None and compression_mode == 'zip', has_class(result, 'ZipFileLineReader') and result._zip_target == source_file and result._zip_archive == zip_base_archive)",
             "implies(raw_graph is None and compression_mode == 'xz', has_class(result, 'XzFileLineReader') and result._xz_file == source_file)"],
    raises=[("ValueError", "(raw_graph is None) == (source_file is None)"),
            ("ValueError", "raw_graph is None and not (compression_mode is None or compression_mode == 'gz' or compression_mode == 'zip' or compression_mode == 'xz')")],
    modifies=["alloc"], props=["C08", "C04"],
    note="exactly one of raw string / file; the reader class and its arguments are the tabulated ones for every (source, compression) combination")
