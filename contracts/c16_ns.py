"""C16 (second half) - namespaces_to_ignore: the predicate filter."""
from pyvc.api import *

TY = "shexer.utils.triple_yielders"
DIRECT_CHILD = "(str_prop.startswith({0}) and '/' not in str_prop[len({0}):] and '#' not in str_prop[len({0}):])"
contract(TY + ":check_if_property_belongs_to_namespace_list", params={"str_prop": Str, "namespaces": List(Str)}, returns=Bool,
    ensures=["result == exists(Int, lambda j: 0 <= j and j < len(namespaces) and %s)" % DIRECT_CHILD.format("namespaces[j]")],
    raises=[], loops={0: {"invariant": ["forall(Int, lambda j: implies(0 <= j and j < _i0, not %s))" % DIRECT_CHILD.format("namespaces[j]")]}},
    props=["C16"],
    note="a predicate is ignored iff it is a DIRECT child of one of the namespaces (no further '/' or '#' after the namespace); "
         "nested namespaces and predicates one level deeper are therefore kept unless listed themselves")
contract(TY + ":check_if_property_belongs_to_namespace_list@canary", params={"str_prop": Str, "namespaces": List(Str)}, returns=Bool,
    ensures=["result == exists(Int, lambda j: 0 <= j and j < len(namespaces) and str_prop.startswith(namespaces[j]))"],
    loops={0: {"invariant": []}}, props=["C16"], canary=True, note="wrong: ignores the direct-child condition")
