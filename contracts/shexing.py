"""Selection / tuning stage (AbstractShexingStrategy, MergeableConstraints).
C03 (relaxation rule), C13 (each switch rewrites only what it documents), C01 (figures carried unchanged), C12/C02 (filter),
C04 (no crash in the merge)."""
from pyvc.api import *
from contracts import common
S = common.install()
Statement, StSer, Shape = S["Statement"], S["StSer"], S["Shape"]
spectype("Statement", Statement)

ASS = "shexer.core.shexing.strategy.abstract_shexing_strategy:AbstractShexingStrategy"
MC = "shexer.core.shexing.strategy.abstract_shexing_strategy:MergeableConstraints"
STQ = common.ST
Strategy = schema("Strategy", ["shexer.core.shexing.strategy.direct_shexing_strategy:DirectShexingStrategy",
                               "shexer.core.shexing.strategy.direct_and_inverse_shexing_strategy:DirectAndInverseShexingStrategy"],
    {"_allow_opt_cardinality": Bool, "_all_compliant_mode": Bool, "_disable_exact_cardinality": Bool, "_disable_comments": Bool,
     "_keep_less_specific": Bool, "_discard_useless_positive_closures": Bool, "_tolerance": Real, "_disable_or_statements": Bool,
     "_allow_redundant_or": Bool, "_instantiation_property_str": Str, "_namespaces_dict": Dict(Str, Str)})

# the text of an informative comment is an (uninterpreted) function of the statement's CURRENT figures and of nothing else
specfun("comment_text", [Opt(Str), Card, Real, Int, Bool], Str)
COMMENT_OF = "comment_text({0}._st_type, {0}._cardinality, {0}._probability, {0}._n_occurences, {0}._is_inverse)"
contract(STQ + ".comment_representation", params={"namespaces_dict": Dict(Str, Str)}, returns=Str,
    requires=["self._serializer_object is not None"], ensures=["result == " + COMMENT_OF.format("self")], raises=[],
    assume_only=True, verify=False,
    note="comment text depends only on the statement's current type, cardinality, probability, count and direction (serializer contracts: C01 items 8)")
contract(ASS + "._turn_statement_into_comment", params={"a_statement": Statement, "namespaces_dict": Dict(Str, Str)}, returns=Str,
    requires=["a_statement._serializer_object is not None"], ensures=["result == " + COMMENT_OF.format("a_statement")], raises=[],
    props=["C01", "C03"])

contract(ASS + "._compute_frequency", params={"number_of_instances": Real, "n_ocurrences_statement": Int}, returns=Real,
    requires=["number_of_instances > 0"], ensures=["result == to_real(n_ocurrences_statement) / number_of_instances"], raises=[],
    props=["C01", "C02", "C12"], note="frequency = occurrences / class count (float modelled as real)")

RELAX = "ite(self._allow_opt_cardinality and old(statement._cardinality) == 1, '?', '*')"
contract(ASS + "._change_statement_cardinality_to_all_compliant", params={"statement": Statement},
    requires=["statement._serializer_object is not None"],
    ensures=["statement._cardinality == " + RELAX, "statement._probability == 1",
             "len(statement._comments) == len(old(statement._comments)) + 1",
             "statement._comments[0] == old(%s)" % COMMENT_OF.format("statement"),       # the ORIGINAL figure is kept, as first comment
             "forall(Int, lambda j: implies(0 <= j and j < len(old(statement._comments)), statement._comments[j + 1] == old(statement._comments)[j]))"],
    raises=[], modifies=["Statement._cardinality[statement]", "Statement._probability[statement]", "Statement._comments[statement]"],
    props=["C03", "C01", "C13"],
    note="'?' iff allow_opt and the cardinality was 1, else '*'; n_occurences and every other statement untouched (frame)")

DISTINCT = "forall(Int, Int, lambda j, k: implies(0 <= j and j < k and k < len({0}), {0}[j] != {0}[k]))"
HAVE_SER = "forall(Int, lambda j: implies(0 <= j and j < len({0}), {0}[j]._serializer_object is not None))"
RELAX_J = "ite(self._allow_opt_cardinality and pre(statements[j]._cardinality) == 1, '?', '*')"
contract(ASS + "._modify_cardinalities_of_statements_non_compliant_with_all_instances", params={"statements": List(Statement)},
    requires=[DISTINCT.format("statements"), HAVE_SER.format("statements")],
    ensures=["forall(Int, lambda j: implies(0 <= j and j < len(statements) and pre(statements[j]._probability) != 1, statements[j]._cardinality == %s and statements[j]._probability == 1))" % RELAX_J,
             "forall(Int, lambda j: implies(0 <= j and j < len(statements) and pre(statements[j]._probability) == 1, statements[j]._cardinality == pre(statements[j]._cardinality) and statements[j]._probability == 1 and list_eq(statements[j]._comments, pre(statements[j]._comments))))",
             "heap_eq('Statement._n_occurences')", "heap_eq('Statement._st_type')", "heap_eq('Statement._st_property')"],
    raises=[], modifies=["Statement._cardinality", "Statement._probability", "Statement._comments"],
    loops={0: {"invariant": [
        "forall(Int, lambda j: implies(0 <= j and j < _i0 and pre(statements[j]._probability) != 1, statements[j]._cardinality == %s and statements[j]._probability == 1))" % RELAX_J,
        "forall(Int, lambda j: implies(0 <= j and j < _i0 and pre(statements[j]._probability) == 1, statements[j]._cardinality == pre(statements[j]._cardinality) and statements[j]._probability == 1 and list_eq(statements[j]._comments, pre(statements[j]._comments))))",
        "forall(Int, lambda j: implies(_i0 <= j and j < len(statements), statements[j]._cardinality == pre(statements[j]._cardinality) and statements[j]._probability == pre(statements[j]._probability) and statements[j]._comments == pre(statements[j]._comments)))",
        "forall(Statement, lambda r: implies(not exists(Int, lambda j: 0 <= j and j < len(statements) and statements[j] == r), r._cardinality == pre(r._cardinality) and r._probability == pre(r._probability) and r._comments == pre(r._comments)))",
    ]}},
    props=["C03", "C13"], note="only statements below 100 % are relaxed; statements at 100 % keep cardinality and comments")

GEN_J = "ite(is_int(pre(statements[j]._cardinality)) and card_val(pre(statements[j]._cardinality)) > 1, '+', pre(statements[j]._cardinality))"
contract(ASS + "._generalize_exact_cardinalities", params={"statements": List(Statement)},
    requires=[DISTINCT.format("statements")],
    ensures=["forall(Int, lambda j: implies(0 <= j and j < len(statements), statements[j]._cardinality == %s))" % GEN_J,
             "heap_eq('Statement._probability')", "heap_eq('Statement._n_occurences')", "heap_eq('Statement._comments')"],
    raises=[], modifies=["Statement._cardinality"],
    loops={0: {"invariant": [
        "forall(Int, lambda j: implies(0 <= j and j < _i0, statements[j]._cardinality == %s))" % GEN_J,
        "forall(Int, lambda j: implies(_i0 <= j and j < len(statements), statements[j]._cardinality == pre(statements[j]._cardinality)))"]}},
    props=["C13", "C03"], note="disable_exact_cardinality only replaces {k>1} by '+'; figures untouched")
contract(ASS + "._remove_comments_from_statements", params={"valid_statements": List(Statement)},
    ensures=["heap_eq('Statement._cardinality')", "heap_eq('Statement._probability')", "heap_eq('Statement._n_occurences')", "heap_eq('Statement._st_type')"],
    raises=[], modifies=["Statement._comments"], props=["C13"], note="disable_comments touches comments only")
