"""Selection / tuning stage (AbstractShexingStrategy, MergeableConstraints).
C03 (relaxation rule), C13 (each switch rewrites only what it documents), C01 (figures carried unchanged), C12/C02 (filter),
C04 (no crash in the merge)."""
from pyvc.api import *
from contracts import common
Kind = spectype("Kind", Atom("Kind"))      # statement types / property names are only compared, hashed and tested for the '%' sentinel here
Text = spectype("Text", Atom("Text"))      # comment texts are only stored and moved around in this stage
S = common.install(kind=Kind, prop=Kind, text=Text)
Statement, StSer, Shape = S["Statement"], S["StSer"], S["Shape"]
spectype("Statement", Statement)

ASS = "shexer.core.shexing.strategy.abstract_shexing_strategy:AbstractShexingStrategy"
MC = "shexer.core.shexing.strategy.abstract_shexing_strategy:MergeableConstraints"
STQ = common.ST
NSD = Atom("NamespacesDict")      # the prefix table is only passed through in this stage
SerFactory = schema("SerFactory", ["shexer.io.shex.formater.statement_serializers.st_serializers_factory:StSerializerFactory"],
                    {"_direct_base": StSer, "_inverse_base": StSer, "_direct_choice": StSer, "_inverse_choice": StSer})
Strategy = schema("Strategy", ["shexer.core.shexing.strategy.direct_shexing_strategy:DirectShexingStrategy",
                               "shexer.core.shexing.strategy.direct_and_inverse_shexing_strategy:DirectAndInverseShexingStrategy"],
    {"_allow_opt_cardinality": Bool, "_all_compliant_mode": Bool, "_disable_exact_cardinality": Bool, "_disable_comments": Bool,
     "_keep_less_specific": Bool, "_discard_useless_positive_closures": Bool, "_tolerance": Real, "_disable_or_statements": Bool,
     "_allow_redundant_or": Bool, "_instantiation_property_str": Kind, "_namespaces_dict": NSD,
     "_statement_serializer_factory": SerFactory})

# the text of an informative comment is an (uninterpreted) function of the statement's CURRENT figures and of nothing else
specfun("comment_text", [Opt(Kind), Card, Real, Int, Bool], Text)
COMMENT_OF = "comment_text({0}._st_type, {0}._cardinality, {0}._probability, {0}._n_occurences, {0}._is_inverse)"
contract(STQ + ".comment_representation", params={"namespaces_dict": NSD}, returns=Text,
    requires=["self._serializer_object is not None"], ensures=["result == " + COMMENT_OF.format("self")], raises=[],
    assume_only=True, verify=False,
    note="comment text depends only on the statement's current type, cardinality, probability, count and direction (serializer contracts: C01 items 8)")
contract(ASS + "._turn_statement_into_comment", params={"a_statement": Statement, "namespaces_dict": NSD}, returns=Text,
    requires=["a_statement._serializer_object is not None"], ensures=["result == " + COMMENT_OF.format("a_statement")], raises=[],
    props=["C01", "C03"])

contract(ASS + "._compute_frequency", params={"number_of_instances": Real, "n_ocurrences_statement": Int}, returns=Real,
    requires=["number_of_instances > 0"], ensures=["result == to_real(n_ocurrences_statement) / number_of_instances"], raises=[],
    props=["C01", "C02", "C12"], note="frequency = occurrences / class count (float modelled as real)")

RELAX = "ite(self._allow_opt_cardinality and old(statement._cardinality) == 1, '?', '*')"
contract(ASS + "._change_statement_cardinality_to_all_compliant", params={"statement": Statement},
    requires=["statement._serializer_object is not None"],
    ensures=["statement._cardinality == " + RELAX, "statement._probability == 1",
             "len(statement._comments) == len(old(statement._comments)) + 1",
             "statement._comments[0] == old(%s)" % COMMENT_OF.format("statement"),       # the ORIGINAL figure is kept, as first comment
             "forall(Int, lambda j: implies(0 <= j and j < len(old(statement._comments)), statement._comments[j + 1] == old(statement._comments)[j]))"],
    raises=[], modifies=["Statement._cardinality[statement]", "Statement._probability[statement]", "Statement._comments[statement]"],
    props=["C03", "C01", "C13"],
    note="'?' iff allow_opt and the cardinality was 1, else '*'; n_occurences and every other statement untouched (frame)")

DISTINCT = "forall(Int, Int, lambda j, k: implies(0 <= j and j < k and k < len({0}), {0}[j] != {0}[k]))"
HAVE_SER = "forall(Int, lambda j: implies(0 <= j and j < len({0}), {0}[j]._serializer_object is not None))"
RELAX_J = "ite(self._allow_opt_cardinality and pre(statements[j]._cardinality) == 1, '?', '*')"
contract(ASS + "._modify_cardinalities_of_statements_non_compliant_with_all_instances", params={"statements": List(Statement)},
    requires=[DISTINCT.format("statements"), HAVE_SER.format("statements")],
    ensures=["forall(Int, lambda j: implies(0 <= j and j < len(statements) and pre(statements[j]._probability) != 1, statements[j]._cardinality == %s and statements[j]._probability == 1))" % RELAX_J,
             "forall(Int, lambda j: implies(0 <= j and j < len(statements) and pre(statements[j]._probability) == 1, statements[j]._cardinality == pre(statements[j]._cardinality) and statements[j]._probability == 1 and list_eq(statements[j]._comments, pre(statements[j]._comments))))",
             "heap_eq('Statement._n_occurences')", "heap_eq('Statement._st_type')", "heap_eq('Statement._st_property')"],
    raises=[], modifies=["Statement._cardinality", "Statement._probability", "Statement._comments"],
    loops={0: {"invariant": [
        "forall(Int, lambda j: implies(0 <= j and j < _i0 and pre(statements[j]._probability) != 1, statements[j]._cardinality == %s and statements[j]._probability == 1))" % RELAX_J,
        "forall(Int, lambda j: implies(0 <= j and j < _i0 and pre(statements[j]._probability) == 1, statements[j]._cardinality == pre(statements[j]._cardinality) and statements[j]._probability == 1 and list_eq(statements[j]._comments, pre(statements[j]._comments))))",
        "forall(Int, lambda j: implies(_i0 <= j and j < len(statements), statements[j]._cardinality == pre(statements[j]._cardinality) and statements[j]._probability == pre(statements[j]._probability) and statements[j]._comments == pre(statements[j]._comments)))",
        "forall(Statement, lambda r: implies(not exists(Int, lambda j: 0 <= j and j < len(statements) and statements[j] == r), r._cardinality == pre(r._cardinality) and r._probability == pre(r._probability) and r._comments == pre(r._comments)))",
    ]}},
    props=["C03", "C13"], note="only statements below 100 % are relaxed; statements at 100 % keep cardinality and comments")

GEN_J = "ite(is_int(pre(statements[j]._cardinality)) and card_val(pre(statements[j]._cardinality)) > 1, '+', pre(statements[j]._cardinality))"
contract(ASS + "._generalize_exact_cardinalities", params={"statements": List(Statement)},
    requires=[DISTINCT.format("statements")],
    ensures=["forall(Int, lambda j: implies(0 <= j and j < len(statements), statements[j]._cardinality == %s))" % GEN_J,
             "heap_eq('Statement._probability')", "heap_eq('Statement._n_occurences')", "heap_eq('Statement._comments')"],
    raises=[], modifies=["Statement._cardinality"],
    loops={0: {"invariant": [
        "forall(Int, lambda j: implies(0 <= j and j < _i0, statements[j]._cardinality == %s))" % GEN_J,
        "forall(Int, lambda j: implies(_i0 <= j and j < len(statements), statements[j]._cardinality == pre(statements[j]._cardinality)))"]}},
    props=["C13", "C03"], note="disable_exact_cardinality only replaces {k>1} by '+'; figures untouched")
contract(ASS + "._remove_comments_from_statements", params={"valid_statements": List(Statement)},
    ensures=["heap_eq('Statement._cardinality')", "heap_eq('Statement._probability')", "heap_eq('Statement._n_occurences')", "heap_eq('Statement._st_type')"],
    raises=[], modifies=["Statement._comments"], props=["C13"], note="disable_comments touches comments only")

# ---- the whole tuning pipeline: each switch rewrites only what it documents (C13), relaxation rule (C03), figures kept (C01) ----
VS = "valid_statements"
C0 = "pre(%s[j]._cardinality)" % VS
P0 = "pre(%s[j]._probability)" % VS
C1 = "ite(self._all_compliant_mode and %s != 1, ite(self._allow_opt_cardinality and %s == 1, '?', '*'), %s)" % (P0, C0, C0)
C2 = "ite(self._disable_exact_cardinality and is_int(%s) and card_val(%s) > 1, '+', %s)" % (C1, C1, C1)
contract(ASS + "._tune_list_of_valid_statements", params={VS: List(Statement)}, mutates=[VS],
    requires=[DISTINCT.format(VS), HAVE_SER.format(VS)],
    ensures=["len(%s) == len(old(%s))" % (VS, VS),
             "is_perm(%s, old(%s))" % (VS, VS),      # same statements, reordered (list.sort: assumed permutation)
             "forall(Int, lambda j: implies(0 <= j and j < len(%s), %s[j]._cardinality == %s))" % (VS, VS, C2),
             "forall(Int, lambda j: implies(0 <= j and j < len(%s) and not (self._all_compliant_mode and %s != 1), %s[j]._probability == %s))" % (VS, P0, VS, P0),
             "heap_eq('Statement._n_occurences')", "heap_eq('Statement._st_type')", "heap_eq('Statement._st_property')", "heap_eq('Statement._is_inverse')",
             "implies(not self._all_compliant_mode, heap_eq('Statement._probability'))",
             "implies(not self._all_compliant_mode and not self._disable_exact_cardinality, heap_eq('Statement._cardinality'))",
             "implies(not self._all_compliant_mode and not self._disable_comments, heap_eq('Statement._comments'))"],
    raises=[], modifies=["Statement._cardinality", "Statement._probability", "Statement._comments"],
    props=["C13", "C03", "C01"],
    note="cardinality after tuning = documented rewrite of the cardinality before; counts, kinds, properties untouched; with every switch off nothing is written")

# ---- MergeableConstraints: the node-kind merge (C04: never crashes; C01: figures of existing statements never written) -----------
MCT = schema("MC", [MC], {"_constraints": List(Statement), "_bnode_constraint": Opt(Statement), "_shape_constraints": Opt(List(Statement)),
                          "_iri_constraint": Opt(Statement), "_dominant_constraint": Opt(Statement), "_disable_or": Bool,
                          "_redundant_or_enabled": Bool, "_statement_serializer_factory": Opt(SerFactory), "_namespaces_dict": Opt(NSD)})
def IN(lst, x): return "exists(Int, lambda q: 0 <= q and q < len(%s) and %s[q] == %s)" % (lst, lst, x)
CS = "self._constraints"
SHL = "some(self._shape_constraints)"
# representation invariant of a group under construction / being merged
MC_INV = [
    "self._shape_constraints is not None",     # established by the constructor
    "forall(Int, lambda j: implies(0 <= j and j < len(%s), has_class(%s[j], 'Statement') and %s[j]._serializer_object is not None))" % (CS, CS, CS),
    "implies(self._bnode_constraint is not None, has_class(some(self._bnode_constraint), 'Statement') and some(self._bnode_constraint)._serializer_object is not None"
    " and some(self._bnode_constraint)._st_type == 'BNode' and %s)" % IN(CS, "some(self._bnode_constraint)"),
    "implies(self._iri_constraint is not None, has_class(some(self._iri_constraint), 'Statement') and some(self._iri_constraint)._serializer_object is not None"
    " and some(self._iri_constraint)._st_type == 'IRI' and %s)" % IN(CS, "some(self._iri_constraint)"),
    "forall(Int, lambda j: implies(0 <= j and j < len(%s), has_class(%s[j], 'Statement') and %s[j]._serializer_object is not None and "
    "some(%s[j]._st_type) != 'IRI' and some(%s[j]._st_type) != 'BNode' and %s))" % (SHL, SHL, SHL, SHL, SHL, IN(CS, SHL + "[j]")),
    # every member sits in exactly one slot: counting form (no quantifier alternation)
    "len(%s) == ite(self._bnode_constraint is not None, 1, 0) + ite(self._iri_constraint is not None, 1, 0) + len(%s)" % (CS, SHL),
]
# what survives the promotion of one member to 'dominant' (membership facts do not)
MC_WEAK = [
    "self._shape_constraints is not None",
    "implies(self._bnode_constraint is not None, has_class(some(self._bnode_constraint), 'Statement') and some(self._bnode_constraint)._serializer_object is not None and some(self._bnode_constraint)._st_type == 'BNode')",
    "implies(self._iri_constraint is not None, has_class(some(self._iri_constraint), 'Statement') and some(self._iri_constraint)._serializer_object is not None and some(self._iri_constraint)._st_type == 'IRI')",
    "forall(Int, lambda j: implies(0 <= j and j < len(%s), has_class(%s[j], 'Statement') and %s[j]._serializer_object is not None))" % (SHL, SHL, SHL),
]
FRAME_FIGURES = ["heap_eq('Statement._n_occurences')", "heap_eq('Statement._st_type')", "heap_eq('Statement._st_property')"]

SLOT_FREE = ("statement._serializer_object is not None and implies(some(statement._st_type) == 'BNode', self._bnode_constraint is None)"
             " and implies(some(statement._st_type) == 'IRI', self._iri_constraint is None)")
SHAPE_MEMBERS_ST = "forall(Int, lambda j: implies(0 <= j and j < len(%s), has_class(%s[j], 'Statement')))" % (SHL, SHL)
contract(MC + ".add_constraint", params={"statement": Statement},
    requires=["has_class(statement, 'Statement')"],
    ensures=["is_append(%s, old(%s), statement)" % (CS, CS),
             # stage 2 (node-kind merge): one statement per (property, kind) arrives, a kind slot is filled at most once -> the
             # representation invariant is kept; stage 1 (same key, several cardinalities) uses the group as a plain list
             "implies(old(%s and %s), %s)" % (" and ".join("(%s)" % x for x in MC_INV), SLOT_FREE, " and ".join("(%s)" % x for x in MC_INV)),
             "implies(old(self._shape_constraints is not None), self._shape_constraints is not None)",
             "implies(old(self._shape_constraints is not None and %s), %s)" % (SHAPE_MEMBERS_ST, SHAPE_MEMBERS_ST),
             "implies(some(statement._st_type) == 'BNode', self._bnode_constraint == statement)",
             "implies(some(statement._st_type) == 'IRI', self._iri_constraint == statement)",
             "implies(some(statement._st_type) != 'IRI' and some(statement._st_type) != 'BNode', self._shape_constraints is not None and %s)" % IN(SHL, "statement")],
    raises=[], modifies=["MC._constraints[self]", "MC._bnode_constraint[self]", "MC._iri_constraint[self]", "MC._shape_constraints[self]"],
    props=["C04", "C02"], note="the member is appended; with a free kind slot every member ends in exactly one slot (bnode / iri / shape list)")
contract(MC + "._promote_to_dominant", params={"statement": Statement}, requires=[IN(CS, "statement")],
    ensures=["self._dominant_constraint == statement", "len(%s) == len(old(%s)) - 1" % (CS, CS)], raises=[],
    modifies=["MC._dominant_constraint[self]", "MC._constraints[self]"], props=["C04"])
SAME_KEY = "forall(Int, lambda j: implies(0 <= j and j < len(%s), %s[j]._st_property == %s[0]._st_property and %s[j]._is_inverse == %s[0]._is_inverse))" % (CS, CS, CS, CS, CS)
GROUP_PRE = MC_INV + ["len(%s) >= 2" % CS, "self._statement_serializer_factory is not None", SAME_KEY]
# the constraint that represents the group is one of its members or a statement created by the merge (never a statement from elsewhere)
MEMBER_OR_FRESH = "(%s or fresh_obj(some(self._dominant_constraint)))" % IN("old(%s)" % CS, "some(self._dominant_constraint)")
SLOTS_KEPT = ["self._iri_constraint == old(self._iri_constraint)", "self._bnode_constraint == old(self._bnode_constraint)"]
contract(MC + "._bnode_merging_strategy", params={},
    requires=GROUP_PRE + ["self._bnode_constraint is not None"],
    ensures=["self._dominant_constraint is not None", "has_class(some(self._dominant_constraint), 'Statement')", "some(self._dominant_constraint)._serializer_object is not None",
             "some(self._dominant_constraint)._st_property == old(self._constraints[0]._st_property)", "some(self._dominant_constraint)._is_inverse == old(self._constraints[0]._is_inverse)",
             MEMBER_OR_FRESH] + MC_WEAK + SLOTS_KEPT, raises=[],
    modifies=["MC._dominant_constraint[self]", "MC._constraints[self]", "alloc"], props=["C04", "C01", "C02", "C14", "C12"],
    note="IRI and BNode values with or without typed values: a dominant constraint is always chosen, nothing is dereferenced through None")
contract(MC + "._no_bnode_merging_strategy", params={},
    requires=GROUP_PRE + ["self._bnode_constraint is None", "self._shape_constraints is not None"],
    ensures=["self._dominant_constraint is not None", "has_class(some(self._dominant_constraint), 'Statement')", "some(self._dominant_constraint)._serializer_object is not None",
             "some(self._dominant_constraint)._st_property == old(self._constraints[0]._st_property)", "some(self._dominant_constraint)._is_inverse == old(self._constraints[0]._is_inverse)",
             MEMBER_OR_FRESH] + MC_WEAK + SLOTS_KEPT, raises=[],
    modifies=["MC._dominant_constraint[self]", "MC._constraints[self]"], props=["C04", "C01", "C02", "C14", "C12"],
    note="also when the threshold removed the plain IRI kind and only shape references are left")

contract(MC + ".__init__", params={"initial_constraint": Opt(Statement), "statement_serializer_factory": Opt(SerFactory), "namespaces_dict": Opt(NSD)},
    requires=["implies(initial_constraint is not None, has_class(some(initial_constraint), 'Statement') and some(initial_constraint)._serializer_object is not None)"],
    ensures=MC_INV + ["len(%s) == ite(initial_constraint is None, 0, 1)" % CS, "implies(initial_constraint is not None, %s[0] == some(initial_constraint))" % CS,
                      "self._statement_serializer_factory == statement_serializer_factory"],
    raises=[], modifies=["MC._constraints[self]", "MC._bnode_constraint[self]", "MC._iri_constraint[self]", "MC._shape_constraints[self]",
                         "MC._dominant_constraint[self]", "MC._disable_or[self]", "MC._redundant_or_enabled[self]",
                         "MC._statement_serializer_factory[self]", "MC._namespaces_dict[self]"],
    props=["C04", "C02"], note="the constructor establishes the representation invariant (in particular: the shape list exists)")

# ---- small predicates of the selection stage ---------------------------------------------------------------------------
TWO = {"st1": Statement, "st2": Statement}
BOTH_ST = ["has_class(st1, 'Statement')", "has_class(st2, 'Statement')"]
contract(ASS + "._statements_have_same_tokens", params=TWO, returns=Bool, requires=BOTH_ST,
    ensures=["result == (st1._st_property == st2._st_property and some(st1._st_type) == some(st2._st_type))"], raises=[], props=["C02", "C09", "C03", "C12"])
contract(ASS + "._is_a_literal", params={"node_kind_str": Kind}, returns=Bool,
    ensures=["result == (not node_kind_str.startswith('%') and node_kind_str != 'IRI' and node_kind_str != 'BNode')"], raises=[], props=["C02", "C03", "C12"])
contract(ASS + "._statements_have_same_prop_and_are_node_type", params={"original_sentence": Statement, "target_sentence": Statement}, returns=Bool,
    requires=["has_class(original_sentence, 'Statement')", "has_class(target_sentence, 'Statement')"],
    ensures=["result == ((some(target_sentence._st_type) == 'IRI' or some(target_sentence._st_type) == 'BNode' or some(target_sentence._st_type).startswith('%'))"
             " and original_sentence._st_property == target_sentence._st_property)"], raises=[], props=["C02", "C03", "C12"])

# ---- MergeableConstraints: views and ordering -------------------------------------------------------------------------------
contract(MC + ".constraints", params={}, yields=Statement, ensures=["list_eq(result, self._constraints)"], raises=[],
    loops={0: {"invariant": ["len(__yielded__) == _i0", "forall(Int, lambda j: implies(0 <= j and j < _i0, __yielded__[j] == self._constraints[j]))"]}},
    props=["C02", "C04"])
contract(MC + ".get", params={"index": Int}, returns=Statement, requires=["0 <= index and index < len(self._constraints)"],
    ensures=["result == self._constraints[index]"], raises=[], props=["C04"])
contract(MC + ".__len__", params={}, returns=Int, ensures=["result == len(self._constraints)"], raises=[], props=["C04"])
PROB = "{0}._probability"
SORTED = "forall(Int, Int, lambda i, j: implies(0 <= i and i < j and j < len({0}), {0}[i]._probability >= {0}[j]._probability))"
SAME_ELEMS = ("forall(Int, lambda j: implies(0 <= j and j < len({0}), exists(Int, lambda k: 0 <= k and k < len(old({0})) and old({0})[k] == {0}[j])))",
              "forall(Int, lambda k: implies(0 <= k and k < len(old({0})), exists(Int, lambda j: 0 <= j and j < len({0}) and {0}[j] == old({0})[k])))")
contract(MC + ".sort", params={},
    requires=["self._shape_constraints is not None",
              "forall(Int, lambda j: implies(0 <= j and j < len(%s), has_class(%s[j], 'Statement')))" % (CS, CS),
              "forall(Int, lambda j: implies(0 <= j and j < len(%s), has_class(%s[j], 'Statement')))" % (SHL, SHL)],
    ensures=["len(%s) == len(old(%s))" % (CS, CS), SORTED.format(CS), SAME_ELEMS[0].format(CS), SAME_ELEMS[1].format(CS),
             "self._shape_constraints is not None", "len(%s) == len(old(%s))" % (SHL, SHL), SORTED.format(SHL),
             SAME_ELEMS[0].format(SHL), SAME_ELEMS[1].format(SHL)],
    raises=[], modifies=["MC._constraints[self]", "MC._shape_constraints[self]"], props=["C09", "C04", "C03"],
    note="descending by probability, same members (list.sort is an assumed stable sort)")

# ---- choice among the cardinalities of one (property, kind): C03 ('+' always offered and preferred), C01 (figures untouched) -----
GRP = "list_of_candidate_sentences"
GC = GRP + "._constraints"
MEMBERS_OK = lambda g: ["forall(Int, lambda j: implies(0 <= j and j < len(%s._constraints), has_class(%s._constraints[j], 'Statement') and %s._constraints[j]._serializer_object is not None))" % (g, g, g),
                        "%s._shape_constraints is not None" % g,
                        "forall(Int, lambda j: implies(0 <= j and j < len(some(%s._shape_constraints)), has_class(some(%s._shape_constraints)[j], 'Statement')))" % (g, g)]
def PLUS(e): return "(%s._cardinality == '+')" % e
USELESS = ("(len({0}) == 2 and abs_real({0}[0]._probability - {0}[1]._probability) <= self._tolerance and (" + PLUS("{0}[0]") + " != " + PLUS("{0}[1]") + "))")
contract(ASS + "._is_a_group_of_statements_with_useless_positive_closure", params={GRP: MCT}, returns=Bool,
    requires=MEMBERS_OK(GRP), ensures=["result == " + USELESS.format(GC)], raises=[],
    loops={0: {"invariant": ["implies(len(%s) == 2, one_if_there_is_a_single_positive_closure == ite(_i0 == 0, -1, ite(_i0 == 1, ite(%s, 1, -1), ite(%s != %s, 1, -1))))"
                             % (GC, PLUS(GC + "[0]"), PLUS(GC + "[0]"), PLUS(GC + "[1]")),
                             "_n0 == len(%s)" % GC, "list_eq(_seq0, %s)" % GC]}},
    props=["C03", "C12", "C02"], note="two members, (almost) equal frequency, exactly one of them is the positive closure")
G2 = "group_of_candidate_statements"
contract(ASS + "._statement_for_a_group_with_a_useless_positive_closure", params={G2: MCT}, returns=Statement,
    requires=MEMBERS_OK(G2) + ["exists(Int, lambda j: 0 <= j and j < len(%s._constraints) and not %s)" % (G2, PLUS(G2 + "._constraints[j]"))],
    ensures=[IN(G2 + "._constraints", "result"), "not " + PLUS("result")], raises=[],
    loops={0: {"invariant": ["forall(Int, lambda j: implies(0 <= j and j < _i0, %s))" % PLUS("_seq0[j]"), "list_eq(_seq0, %s._constraints)" % G2]}},
    props=["C03"])

MCS = "mergeable_constraints"
MCL = MCS + "._constraints"
ANY_PLUS = "exists(Int, lambda j: 0 <= j and j < len(old(%s)) and %s)" % (MCL, "pre(old(%s)[j]._cardinality) == '+'" % MCL)
ANY_EXACT = "exists(Int, lambda j: 0 <= j and j < len(old(%s)) and %s)" % (MCL, "pre(old(%s)[j]._cardinality) != '+'" % MCL)
USELESS_OLD = USELESS.format("old(%s)" % MCL)
contract(ASS + "._decide_best_statement_with_cardinalities_in_comments", params={MCS: MCT}, returns=Statement,
    requires=MEMBERS_OK(MCS) + ["len(%s) >= 2" % MCL],
    ensures=[IN("old(%s)" % MCL, "result"),
             # useless positive closure: the exact cardinality is kept
             "implies(self._discard_useless_positive_closures and %s, result._cardinality != '+')" % USELESS_OLD,
             # otherwise, keep_less_specific prefers '+' whenever it is on offer (it always is: C03) ...
             "implies(not (self._discard_useless_positive_closures and %s) and self._keep_less_specific and %s, result._cardinality == '+')" % (USELESS_OLD, ANY_PLUS),
             # ... and the specific mode prefers an exact cardinality whenever there is one
             "implies(not (self._discard_useless_positive_closures and %s) and not self._keep_less_specific and %s, result._cardinality != '+')" % (USELESS_OLD, ANY_EXACT),
             # figures of every alternative are untouched; only the winner's comments grow
             "heap_eq('Statement._cardinality')", "heap_eq('Statement._probability')", "heap_eq('Statement._n_occurences')", "heap_eq('Statement._st_type')",
             "forall(Statement, lambda r: implies(r != result, r._comments == pre(r._comments)))"],
    raises=[], modifies=["Statement._comments", "MC._constraints[mergeable_constraints]", "MC._shape_constraints[mergeable_constraints]"],
    ghost={"__locals__": {"result": Opt(Statement)}},
    loops={0: {"invariant": ["result is None", "forall(Int, lambda j: implies(0 <= j and j < _i0, _seq0[j]._cardinality != '+'))"]},
           1: {"invariant": ["result is None", "forall(Int, lambda j: implies(0 <= j and j < _i1, _seq1[j]._cardinality == '+'))"]},
           2: {"invariant": ["result is not None", "heap_eq('Statement._cardinality')", "heap_eq('Statement._probability')",
                             "forall(Statement, lambda r: implies(r != some(result), r._comments == pre(r._comments)))",
                             "list_eq(_seq2, %s)" % MCL]}},
    props=["C03", "C01", "C09", "C02"], note="the chosen statement is a member of its group; '+' wins under keep_less_specific unless it is useless")

# ---- merging the non-literal kinds of one property (IRI / BNode / shape references) --------------------------------------------
# sorting keeps the representation invariant when it held before (stage 2); stage 1 uses the group as a plain list
INV_CONJ = " and ".join("(%s)" % x for x in MC_INV)
CONTRACTS[MC + ".sort"].ensures += ["implies(old(%s), %s)" % (INV_CONJ, INV_CONJ),
                                    "self._bnode_constraint == old(self._bnode_constraint)", "self._iri_constraint == old(self._iri_constraint)"]
DOM = "some(self._dominant_constraint)"
OLD_MEMBER = IN("old(%s)" % CS, DOM)
NEW_OBJ = "(%s >= old(alloc()))" % DOM
contract(MC + "._feed_dominant_constraint_with_comments", params={},
    requires=MC_WEAK + ["self._dominant_constraint is not None", "self._namespaces_dict is not None", "%s._serializer_object is not None" % DOM if False else "True"],
    ensures=["heap_eq('Statement._cardinality')", "heap_eq('Statement._probability')", "heap_eq('Statement._n_occurences')", "heap_eq('Statement._st_type')",
             "forall(Statement, lambda r: implies(r != %s, r._comments == pre(r._comments)))" % DOM],
    raises=[], modifies=["Statement._comments"],
    loops={0: {"invariant": ["heap_eq('Statement._cardinality')", "heap_eq('Statement._probability')", "heap_eq('Statement._n_occurences')", "heap_eq('Statement._st_type')",
                             "forall(Statement, lambda r: implies(r != %s, r._comments == pre(r._comments)))" % DOM]}},
    props=["C04", "C01"], note="alternatives become comments of the dominant constraint; no figure is written")
DOM_KEPT_OR_SLOT_OR_FRESH = ("(self._dominant_constraint == old(self._dominant_constraint) or fresh_obj(%s)"
                             " or (old(self._iri_constraint) is not None and self._dominant_constraint == old(self._iri_constraint))"
                             " or (old(self._bnode_constraint) is not None and self._dominant_constraint == old(self._bnode_constraint)))" % DOM)
contract(MC + "._tune_dominant_constraint_wrt_or_config", params={},
    requires=MC_WEAK + ["self._dominant_constraint is not None", "has_class(%s, 'Statement')" % DOM, "%s._serializer_object is not None" % DOM,
                        "self._statement_serializer_factory is not None"],
    ensures=["self._dominant_constraint is not None",
             "implies(self._disable_or, self._dominant_constraint == old(self._dominant_constraint))",
             # a disjunction keeps property, cardinality and figures of the dominant constraint
             "%s._st_property == old(%s._st_property) and %s._cardinality == old(%s._cardinality) and %s._n_occurences == old(%s._n_occurences) and %s._probability == old(%s._probability)" % ((DOM,) * 8),
             DOM_KEPT_OR_SLOT_OR_FRESH],
    raises=[], modifies=["MC._dominant_constraint[self]", "alloc"], props=["C04", "C13"], ghost={"__locals__": {"st_types": List(Opt(Kind))}},
    note="disable_or_statements=False only turns the single non-literal constraint into a disjunction over the same alternatives")

contract(MC + "._merge_content_in_single_statement", params={},
    requires=MC_WEAK + ["self._dominant_constraint is not None", "has_class(%s, 'Statement')" % DOM, "%s._serializer_object is not None" % DOM,
                        "self._statement_serializer_factory is not None", "self._namespaces_dict is not None"],
    ensures=["self._dominant_constraint is not None",
             "%s._st_property == old(%s._st_property) and %s._cardinality == old(%s._cardinality) and %s._n_occurences == old(%s._n_occurences)" % ((DOM,) * 6),
             DOM_KEPT_OR_SLOT_OR_FRESH],
    raises=[], modifies=["MC._dominant_constraint[self]", "alloc", "Statement._comments"], props=["C04", "C02"])
contract(MC + ".merge_group", params={"disable_or": Bool, "redundant_or_allowed": Bool}, returns=Statement,
    requires=GROUP_PRE + ["self._namespaces_dict is not None"],
    ensures=["result._st_property == old(self._constraints[0]._st_property)",
             "(%s or fresh_obj(result))" % IN("old(%s)" % CS, "result")],      # figures of existing statements: frame (only comments are written)
    raises=[], modifies=["MC._dominant_constraint[self]", "MC._constraints[self]", "MC._shape_constraints[self]", "MC._disable_or[self]",
                         "MC._redundant_or_enabled[self]", "alloc", "Statement._comments"],
    props=["C04", "C02"], note="the merge of the node kinds of one property never fails and yields one constraint for that property")
