"""NOT LOADED (never imported by props.py): remove_statements_to_gone_shapes of both strategies, through the Shape property
setters (filtering list comprehensions, modelled by pyvc/evalx.py listcomp_filter; setter loops inlined with the invariants below).

Tried at the end of the third session: 24 of 27 obligations are discharged, but the postconditions need 18-60 s and flip between
`unsat` and `timeout` from run to run (strictly increasing index map of the filter + the append loop + membership quantifiers).  An
obligation that close to its budget would become a false alarm under load through the baseline-regression rule, so the contracts are
not loaded; the wiring stays an ASSUMED contract (contracts/grouping.py: ClassShexer._remove_statements_to_gone_shapes) exercised by
the bounded monitors.  To experiment: append this text to contracts/grouping.py.
"""
_TEXT = r"""
# =====================================================================================================================================
# the wiring of the statement filter into the strategy objects and the Shape property setters (list comprehensions with a filter are
# modelled by the engine: pyvc/evalx.py listcomp_filter).  C05: no reference to a removed shape survives, in EITHER direction.
# =====================================================================================================================================
SHQ_ = "shexer.model.shape:Shape"
STM = "self._statements"
ENTRY = "at_loop(0, %s)" % STM
SETTER_INV = ["len(%s) == len(%s) + _i0" % (STM, ENTRY),
              "forall(Int, lambda q: implies(0 <= q and q < len(%s), at(%s, q) == at(%s, q)))" % (ENTRY, STM, ENTRY),
              "forall(Int, lambda q: implies(0 <= q and q < _i0, at(%s, len(%s) + q) == at(_seq0, q)))" % (STM, ENTRY)]
# loop invariants of the two setters (their bodies are inlined from the real source at every assignment `shape.direct_statements = ...`):
# the kept half, then the first _i0 new statements, in order
for _nm in ("direct_statements", "inverse_statements"):
    contract(SHQ_ + "." + _nm, params={}, loops={0: {"invariant": SETTER_INV}}, verify=False, assume_only=False, props=[],
             note="loop invariant only (property setter, inlined at its call sites)")
DI_ = "shexer.core.shexing.strategy.direct_and_inverse_shexing_strategy:DirectAndInverseShexingStrategy"
DS_ = "shexer.core.shexing.strategy.direct_shexing_strategy:DirectShexingStrategy"
SST = "shape._statements"
ALL_ST = "forall(Int, lambda j: implies(%s, has_class(at(%s, j), 'Statement')))" % (BOUND("j", SST), SST)
NO_DANGLING = "forall(Int, lambda q: implies(%s, not (some(at(%s, q)._st_type) in %s) and exists(Int, lambda j: 0 <= j and j < len(old(%s)) and at(old(%s), j) == at(%s, q))))" % (BOUND("q", SST), SST, NAMES, SST, SST, SST)
OTHERS_KEPT = "forall(Int, lambda j: implies(0 <= j and j < len(old(%s)) and not (some(at(old(%s), j)._st_type) in %s), exists(Int, lambda q: %s and at(%s, q) == at(old(%s), j))))" % (SST, SST, NAMES, BOUND("q", SST), SST, SST)
contract(DI_ + ".remove_statements_to_gone_shapes", params={"shape": Shape, NAMES: Set(Kind)},
    requires=[ALL_ST], ensures=[NO_DANGLING, OTHERS_KEPT], raises=[], modifies=["Shape._statements[shape]"],
    props=["C05", "C02", "C14"],
    note="after the call NO statement of the shape - direct or inverse - points to a removed shape, and every other statement is still there")
contract(DS_ + ".remove_statements_to_gone_shapes", params={"shape": Shape, NAMES: Set(Kind)},
    requires=[ALL_ST, "forall(Int, lambda j: implies(%s, not at(%s, j)._is_inverse))" % (BOUND("j", SST), SST)],
    ensures=[NO_DANGLING, OTHERS_KEPT], raises=[], modifies=["Shape._statements[shape]"],
    props=["C05", "C02"], note="direct-only strategy (its shapes hold no inverse statements): same contract")

"""
