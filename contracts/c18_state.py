"""C18 - results depend only on the arguments: output buffer of the ShExC serializer (file text == returned text, any length)."""
from pyvc.api import *

SXS = "shexer.io.shex.formater.shex_serializer:ShexSerializer"
Ser = schema("ShexSer", [SXS], {"_lines_buffer": List(Str), "_string_result": Str, "_string_return": Bool, "_target_file": Opt(Str),
                                "__file__": Str})      # __file__: ghost - the text of the target file
specfun("indent_of", [Int], Str, axioms=["indent_of(0) == ''", "forall(Int, lambda n: implies(n >= 0, indent_of(n + 1) == indent_of(n) + '   '))"])
OUT = "ite(self._string_return, self._string_result, self.__file__)"
TOTAL = "(%s + joined(self._lines_buffer))" % OUT

contract(SXS + "._indentation_spaces", params={"indent_level": Int}, returns=Str, requires=["indent_level >= 0"],
    ensures=["result == indent_of(indent_level)"], raises=[],
    loops={0: {"invariant": ["result == indent_of(_i0)"]}}, props=["C18"], axioms_of=["indent_of"])
contract(SXS + "._write_lines_buffer", params={},
    ensures=["%s == old(%s)" % (OUT, TOTAL), "self._lines_buffer == old(self._lines_buffer)",
             "implies(self._string_return, self.__file__ == old(self.__file__))", "implies(not self._string_return, self._string_result == old(self._string_result))"],
    raises=[], modifies=["ShexSer._string_result[self]", "ShexSer.__file__[self]"], assume_only=True, verify=False, props=["C18", "C05", "C13", "C11", "C12", "C01", "C02"],
    note="ASSUMED for the file sink: appending every buffered line to the file appends their concatenation (with-statement / file I/O is outside the subset); "
         "the string sink is verified below")
contract(SXS + "._write_lines_buffer@string", params={}, requires=["self._string_return"],
    ensures=["self._string_result == old(self._string_result) + joined(self._lines_buffer)", "self._lines_buffer == old(self._lines_buffer)"],
    raises=[], modifies=["ShexSer._string_result[self]"], props=["C18", "C05", "C13", "C11", "C12", "C01", "C02"], note="string sink: the body is verified (the file branch is unreachable under the precondition)")
contract(SXS + "._write_line", params={"a_line": Str, "indent_level": Int}, requires=["indent_level >= 0"],
    ensures=["%s == old(%s) + indent_of(indent_level) + a_line + '\\n'" % (TOTAL, TOTAL), "len(self._lines_buffer) < 5000"],
    raises=[], modifies=["ShexSer._lines_buffer[self]", "ShexSer._string_result[self]", "ShexSer.__file__[self]"], props=["C18", "C05", "C13", "C11", "C12", "C01", "C02"],
    note="buffer invariant: sink text ++ pending lines grows by exactly the written line, also across the 5000-line flush")
contract(SXS + "._flush", params={}, ensures=["%s == old(%s)" % (OUT, TOTAL)], raises=[],
    modifies=["ShexSer._string_result[self]", "ShexSer.__file__[self]"], props=["C18", "C05", "C13", "C11", "C12", "C01", "C02"])
contract(SXS + "._write_line@canary", params={"a_line": Str, "indent_level": Int}, requires=["indent_level >= 0"],
    ensures=["%s == old(%s) + a_line + '\\n'" % (TOTAL, TOTAL)], modifies=["ShexSer._lines_buffer[self]", "ShexSer._string_result[self]", "ShexSer.__file__[self]"],
    props=["C18"], canary=True)
